package main

import (
	"fmt"
	"go/ast"
	"go/constant"
	"go/token"
	"go/types"
	"sort"
	"strings"

	"golang.org/x/tools/go/ssa"
)

func init() {
	register(&Rule{Name: "LITERAL-FIRST", Floor: 3,
		Doc: "in path.search the literal edge (lookup in segments + recursive search) is tried before any variable, and its success returns its own result without entering the variable loop",
		Run: ruleLiteralFirst})
	register(&Rule{Name: "BACKTRACK", Floor: 4,
		Doc: "a failed sub-search or non-matching variable never aborts the search: its error is never returned, 'not found' is returned only after the loop, and every failure edge inside the loop continues with the next variable",
		Run: ruleBacktrack})
	register(&Rule{Name: "STOP-SET", Floor: 2,
		Doc: "in variable.index, evaluated as constants, '*' stops exactly at {slash, verb} and '**' exactly at {verb} (google.api.http: '*' is one segment, '**' runs to the final verb)",
		Run: ruleStopSet})
	register(&Rule{Name: "LITERAL-COMPARE", Floor: 3,
		Doc: "in variable.index the literal arm rejects on a kind mismatch and on a text mismatch between template token and request token; the slash arm rejects on a kind mismatch",
		Run: ruleLiteralCompare})
	register(&Rule{Name: "SORTED-VARS", Floor: 4,
		Doc: "path.variables is re-sorted after every addition; Less is a strict < on the variable's name; the name is the pattern's token text; names are unique per node",
		Run: ruleSortedVars})
	register(&Rule{Name: "NO-MAP-ORDER", Floor: 1,
		Doc: "no function reachable from state.match ranges over a map (the outcome cannot depend on map iteration order)",
		Run: ruleNoMapOrder})
	register(&Rule{Name: "KEY-AGREE", Floor: 2,
		Doc: "the key that follows a literal edge in search (separator text + segment text) is built like the key that creates it in addPath",
		Run: ruleKeyAgree})
	register(&Rule{Name: "PATTERN-VERB", Floor: 6,
		Doc: "addRule maps each HttpRule pattern case to the HTTP method of the same name and takes the template from the same oneof field; custom patterns use their upper-cased kind (decided on the key of the registering map update and the string stored into lexer.input, classified by the type assertion under which each value is chosen)",
		Run: rulePatternVerb})
	register(&Rule{Name: "VERB-KEY", Floor: 3,
		Doc: "the per-verb leaf lookup is keyed by search's verb parameter, which serveHTTP feeds with r.Method or the WebSocket kind constant that health.AddHealthz registers",
		Run: ruleVerbKey})
	register(&Rule{Name: "LEAF-EXHAUSTED", Floor: 1,
		Doc: "search returns a method only on the branch where at most the end marker is left unmatched",
		Run: ruleLeafExhausted})
	register(&Rule{Name: "VARS-ONLY", Floor: 2,
		Doc: "every parameter search produces takes its field list from method.vars (routing sets no field the template does not name)",
		Run: ruleVarsOnly})
}

type searchShape struct {
	fn        *ssa.Function
	litLookup *ssa.Lookup // p.segments[key]
	litCall   *ssa.Call   // next.search(...)
	varCalls  []*ssa.Call // v.next.search(...)
	varElems  []ssa.Instruction
	header    *ssa.BasicBlock
	indexCall *ssa.Call
}

func (p *Program) searchShape() *searchShape {
	fn := p.Method("path", "search")
	if fn == nil {
		return nil
	}
	sh := &searchShape{fn: fn}
	segs := p.StructField("path", "segments")
	vars := p.StructField("path", "variables")
	eachInstr(fn, func(in ssa.Instruction) {
		switch x := in.(type) {
		case *ssa.Lookup:
			for _, o := range p.origins(x.X, originOpts{}) {
				if loadsField(o, segs) {
					sh.litLookup = x
				}
			}
		case *ssa.IndexAddr:
			for _, o := range p.origins(x.X, originOpts{}) {
				if loadsField(o, vars) {
					sh.varElems = append(sh.varElems, in)
					if ph := indexPhi(x.Index); ph != nil {
						sh.header = ph.Block()
					}
				}
			}
		case *ssa.Call:
			switch calleeName(x) {
			case nPathSearch:
				recvFromLookup := false
				for _, o := range p.origins(x.Call.Args[0], originOpts{}) {
					if ex, ok := o.(*ssa.Extract); ok && sh.litLookup != nil && ex.Tuple == ssa.Value(sh.litLookup) {
						recvFromLookup = true
					}
					if lk, ok := o.(*ssa.Lookup); ok && lk == sh.litLookup {
						recvFromLookup = true
					}
				}
				if recvFromLookup {
					sh.litCall = x
				} else {
					sh.varCalls = append(sh.varCalls, x)
				}
			case "(*larking.io/larking.variable).index":
				sh.indexCall = x
			}
		}
	})
	return sh
}

// constIntNamed returns the value of an integer constant of the larking package.
func (p *Program) constIntNamed(name string) (int64, bool) {
	c, ok := p.Lark.Types.Scope().Lookup(name).(*types.Const)
	if !ok {
		return 0, false
	}
	return constant.Int64Val(constant.ToInt(c.Val()))
}

// indexPhi: the loop phi behind a range index (i or i+1 form).
func indexPhi(v ssa.Value) *ssa.Phi {
	switch x := v.(type) {
	case *ssa.Phi:
		return x
	case *ssa.BinOp:
		if ph, ok := x.X.(*ssa.Phi); ok {
			return ph
		}
	}
	return nil
}

func extractOf(c *ssa.Call, idx int) ssa.Value {
	for _, ref := range *c.Referrers() {
		if ex, ok := ref.(*ssa.Extract); ok && ex.Index == idx {
			return ex
		}
	}
	return nil
}

func ruleLiteralFirst(r *Run) {
	p := r.P
	sh := p.searchShape()
	if sh == nil {
		r.missing("method (*path).search")
		return
	}
	if sh.litLookup == nil || sh.litCall == nil {
		r.bad("(*path).search/literal-edge", sh.fn.Pos(), "search has no lookup in path.segments followed by a recursive search on its result: literal segments are never matched by their text")
		return
	}
	if len(sh.varElems) == 0 {
		r.bad("(*path).search/variable-loop", sh.fn.Pos(), "search has no loop over path.variables")
		return
	}
	// (1) with the literal edge present, no variable is tried before the literal sub-search ran
	var okv ssa.Value
	for _, ref := range *sh.litLookup.Referrers() {
		if ex, ok := ref.(*ssa.Extract); ok && ex.Index == 1 {
			okv = ex
		}
	}
	isVar := map[ssa.Instruction]bool{}
	for _, v := range sh.varElems {
		isVar[v] = true
	}
	q := pathQuery{fn: sh.fn, start: sh.litLookup, barrier: func(x ssa.Instruction) bool { return x == ssa.Instruction(sh.litCall) },
		target: func(x ssa.Instruction) bool { return isVar[x] },
		edgeOK: func(b *ssa.BasicBlock, succ int) bool {
			if ifi := blockIf(b); ifi != nil && okv != nil && ifi.Cond == okv {
				return succ == 0
			}
			return true
		}}
	w, _ := q.find()
	r.check(w == nil && instrDominates(sh.litLookup, sh.varElems[0]), "(*path).search/literal-before-variables", sh.litLookup.Pos(),
		"when a literal edge exists its sub-search runs before any variable is tried", "a variable can be tried before the literal edge's sub-search: a wildcard template can win over a template that spells the segment literally")
	// (2) success of the literal sub-search returns its own results
	errv := extractOf(sh.litCall, 2)
	good := false
	if errv != nil {
		for _, ref := range *errv.Referrers() {
			bo, ok := ref.(*ssa.BinOp)
			if !ok || !isNilConst(bo.Y) {
				continue
			}
			for _, r2 := range *bo.Referrers() {
				ifi, ok := r2.(*ssa.If)
				if !ok {
					continue
				}
				succ := 0
				if bo.Op == token.NEQ {
					succ = 1
				}
				b := ifi.Block().Succs[succ]
				for _, in := range b.Instrs {
					if rt, ok := in.(*ssa.Return); ok && len(rt.Results) == 3 {
						if ex, ok := rt.Results[0].(*ssa.Extract); ok && ex.Tuple == ssa.Value(sh.litCall) && ex.Index == 0 {
							good = true
						}
					}
				}
			}
		}
	}
	r.check(good, "(*path).search/literal-success-returns", sh.litCall.Pos(), "a successful literal sub-search returns its own (method, params) at once",
		"the success edge of the literal sub-search does not return that sub-search's own result: the literal match does not take precedence")
	r.ok("(*path).search/shape", sh.fn.Pos(), "literal lookup, literal sub-search, %d variable sub-search(es), loop header identified", len(sh.varCalls))
}

func ruleBacktrack(r *Run) {
	p := r.P
	sh := p.searchShape()
	if sh == nil {
		r.missing("method (*path).search")
		return
	}
	var calls []*ssa.Call
	if sh.litCall != nil {
		calls = append(calls, sh.litCall)
	}
	calls = append(calls, sh.varCalls...)
	if len(calls) == 0 || sh.header == nil {
		r.undecided("(*path).search/backtrack", sh.fn.Pos(), "could not identify the recursive calls / the variable loop header")
		return
	}
	// (a) no return propagates a sub-search's error
	prop := false
	eachInstr(sh.fn, func(in ssa.Instruction) {
		rt, ok := in.(*ssa.Return)
		if !ok || len(rt.Results) != 3 {
			return
		}
		for _, o := range p.origins(rt.Results[2], originOpts{}) {
			if ex, ok := o.(*ssa.Extract); ok {
				for _, c := range calls {
					if ex.Tuple == ssa.Value(c) {
						prop = true
						r.bad("(*path).search/sub-search-error-not-returned", rt.Pos(), "search returns the error of a failed sub-search: the first alternative that fails deeper in the trie aborts the whole search instead of backtracking")
					}
				}
			}
		}
	})
	if !prop {
		r.ok("(*path).search/sub-search-error-not-returned", sh.fn.Pos(), "no return carries the error of a recursive search call")
	}
	// (b) errNotFound only after the loop
	nNF := 0
	eachInstr(sh.fn, func(in ssa.Instruction) {
		rt, ok := in.(*ssa.Return)
		if !ok || len(rt.Results) != 3 {
			return
		}
		for _, o := range p.origins(rt.Results[2], originOpts{}) {
			u, ok := o.(*ssa.UnOp)
			if !ok {
				continue
			}
			g, ok := u.X.(*ssa.Global)
			if !ok || g.Name() != "errNotFound" {
				continue
			}
			nNF++
			inLoop := false
			for _, ve := range sh.varElems {
				if ve.Block() == rt.Block() || ve.Block().Dominates(rt.Block()) {
					inLoop = true
				}
			}
			r.check(!inLoop, "(*path).search/not-found-after-loop", rt.Pos(), "'not found' is returned only once every variable was tried", "'not found' is returned from inside the variable loop: later variables are never tried")
		}
	})
	if nNF == 0 {
		r.undecided("(*path).search/not-found-after-loop", sh.fn.Pos(), "no return of errNotFound found")
	}
	// (c) every failure edge inside the loop continues with the next variable (passes the loop header before any return)
	inHeader := func(x ssa.Instruction) bool { return x.Block() == sh.header }
	checkEdge := func(name string, ifi *ssa.If, succ int) {
		b := ifi.Block().Succs[succ]
		if b == sh.header {
			r.ok("(*path).search/continue:"+name, ifi.Pos(), "failure edge goes straight back to the loop header")
			return
		}
		if len(b.Instrs) == 0 {
			return
		}
		q := pathQuery{fn: sh.fn, start: nil, barrier: inHeader, target: isReturn}
		// start at the beginning of b: emulate by searching from the If with only that edge allowed at this block
		q.start = ifi
		q.edgeOK = func(bb *ssa.BasicBlock, s int) bool {
			if bb == ifi.Block() {
				return s == succ
			}
			return true
		}
		if w, _ := q.find(); w != nil {
			r.bad("(*path).search/continue:"+name, ifi.Pos(), "from this failure edge a return is reachable without going back to the loop header: the search gives up instead of trying the next variable (%s)", p.describePath(w))
		} else {
			r.ok("(*path).search/continue:"+name, ifi.Pos(), "failure edge continues with the next variable")
		}
	}
	for i, c := range sh.varCalls {
		errv := extractOf(c, 2)
		if errv == nil {
			continue
		}
		for _, ref := range *errv.Referrers() {
			bo, ok := ref.(*ssa.BinOp)
			if !ok || !isNilConst(bo.Y) {
				continue
			}
			for _, r2 := range *bo.Referrers() {
				if ifi, ok := r2.(*ssa.If); ok {
					succ := 0
					if bo.Op == token.EQL {
						succ = 1
					}
					checkEdge(fmt.Sprintf("sub-search#%d", i+1), ifi, succ)
				}
			}
		}
	}
	// the "variable does not match" test: l == 0 (index returned -1)
	if sh.indexCall != nil {
		found := false
		eachInstr(sh.fn, func(in ssa.Instruction) {
			ifi, ok := in.(*ssa.If)
			if !ok {
				return
			}
			bo, ok := ifi.Cond.(*ssa.BinOp)
			if !ok {
				return
			}
			k, isC := constInt(bo.Y)
			if !isC {
				return
			}
			derives := false
			x := bo.X
			if add, ok := x.(*ssa.BinOp); ok {
				x = add.X
			}
			if x == ssa.Value(sh.indexCall) {
				derives = true
			}
			if !derives {
				return
			}
			found = true
			switch {
			case bo.Op == token.EQL && (k == 0 || k == -1):
				checkEdge("no-match", ifi, 0)
			case bo.Op == token.NEQ && (k == 0 || k == -1):
				checkEdge("no-match", ifi, 1)
			case bo.Op == token.LSS || bo.Op == token.LEQ:
				checkEdge("no-match", ifi, 0)
			}
		})
		if !found {
			r.undecided("(*path).search/continue:no-match", sh.fn.Pos(), "no test of variable.index's result found")
		}
	}
	// (d) the only error returned inside the loop is parseParam's
	eachInstr(sh.fn, func(in ssa.Instruction) {
		rt, ok := in.(*ssa.Return)
		if !ok || len(rt.Results) != 3 {
			return
		}
		inLoop := false
		for _, ve := range sh.varElems {
			if ve.Block().Dominates(rt.Block()) {
				inLoop = true
			}
		}
		if !inLoop {
			return
		}
		for _, o := range p.origins(rt.Results[2], originOpts{}) {
			if isNilConst(o) {
				continue
			}
			if n := sourceCall(o); n == nParseParam {
				r.ok("(*path).search/loop-error:parseParam", rt.Pos(), "the conversion failure of a capture is the property's stated exception")
				continue
			}
			if ex, ok := o.(*ssa.Extract); ok {
				isSub := false
				for _, c := range calls {
					if ex.Tuple == ssa.Value(c) {
						isSub = true
					}
				}
				if isSub {
					continue // reported by (a)
				}
			}
			if u, ok := o.(*ssa.UnOp); ok {
				if g, ok := u.X.(*ssa.Global); ok && g.Name() == "errNotFound" {
					continue // reported by (b)
				}
			}
			// a bounds pre-check: the return runs only where a value that is used as an index right after would be
			// negative (or past the length) - the refused case panics today, no request that matched is affected
			if p.isBoundsPrecheck(rt) {
				r.ok("(*path).search/loop-error:bounds-precheck", rt.Pos(), "an error returned where the index that follows would be out of range (that case panics without the check)")
				continue
			}
			r.bad("(*path).search/loop-error:"+describeValue(o), rt.Pos(), "an error other than a capture conversion failure is returned from inside the variable loop")
		}
	})
}

func (p *Program) tokenConst(name string) (int64, bool) {
	c, ok := p.Lark.Types.Scope().Lookup(name).(*types.Const)
	if !ok {
		return 0, false
	}
	v, ok := constant.Int64Val(constant.ToInt(c.Val()))
	return v, ok
}

func ruleStopSet(r *Run) {
	p := r.P
	fd := p.FuncDecl("variable", "index")
	if fd == nil {
		r.missing("method (*variable).index")
		return
	}
	slash, ok1 := p.tokenConst("tokenSlash")
	verb, ok2 := p.tokenConst("tokenVerb")
	star, ok3 := p.tokenConst("tokenStar")
	starstar, ok4 := p.tokenConst("tokenStarStar")
	if !(ok1 && ok2 && ok3 && ok4) {
		r.missing("token kind constants")
		return
	}
	// the primitives' semantics: indexAny = first token whose kind intersects the mask; index = first token of exactly that kind
	info := p.Lark.TypesInfo
	found := map[string]bool{}
	ast.Inspect(fd.Body, func(n ast.Node) bool {
		cc, ok := n.(*ast.CaseClause)
		if !ok {
			return true
		}
		arm := ""
		for _, e := range cc.List {
			if v := constOf(p.Lark, e); v != nil {
				k, _ := constant.Int64Val(constant.ToInt(v))
				if isNamed(info.TypeOf(e), larkPath, "tokenType") {
					if k == star {
						arm = "*"
					}
					if k == starstar {
						arm = "**"
					}
				}
			}
		}
		if arm == "" {
			return true
		}
		var stops []int64
		mode := ""
		for _, st := range cc.Body {
			ast.Inspect(st, func(m ast.Node) bool {
				call, ok := m.(*ast.CallExpr)
				if !ok {
					return true
				}
				sel, ok := call.Fun.(*ast.SelectorExpr)
				if !ok || len(call.Args) != 1 {
					return true
				}
				fnObj, _ := info.Uses[sel.Sel].(*types.Func)
				if fnObj == nil {
					return true
				}
				switch fnObj.FullName() {
				case "(larking.io/larking.tokens).indexAny":
					mode = "mask"
				case "(larking.io/larking.tokens).index":
					mode = "exact"
				default:
					return true
				}
				if v := constOf(p.Lark, call.Args[0]); v != nil {
					k, _ := constant.Int64Val(constant.ToInt(v))
					stops = append(stops, k)
				}
				return true
			})
		}
		key := "(*variable).index/stop-set:" + arm
		found[arm] = true
		if len(stops) != 1 {
			r.undecided(key, cc.Pos(), "the arm does not compute its stop position with one tokens.index/indexAny call on a constant kind set")
			return true
		}
		want := verb
		wantText := "{verb}"
		if arm == "*" {
			want = slash | verb
			wantText = "{slash, verb}"
		}
		got := stops[0]
		if mode == "exact" && arm == "*" {
			r.bad(key, cc.Pos(), "'*' stops at a single exact kind (%#x); it must stop at %s", got, wantText)
			return true
		}
		r.check(got == want, key, cc.Pos(), "stops exactly at "+wantText,
			fmt.Sprintf("stop set is %#x, google.api.http requires %s (%#x): '*' must cover one segment only and '**' everything up to the verb", got, wantText, want))
		return true
	})
	for _, arm := range []string{"*", "**"} {
		if !found[arm] {
			r.bad("(*variable).index/stop-set:"+arm, fd.Pos(), "no case for the %s token kind", arm)
		}
	}
}

func ruleLiteralCompare(r *Run) {
	p := r.P
	fn := p.Method("variable", "index")
	if fn == nil {
		r.missing("method (*variable).index")
		return
	}
	valF := p.StructField("token", "val")
	typF := p.StructField("token", "typ")
	reqToks := fn.Params[1]
	// elemField: v reads field f of an element of a token slice - `toks[i].f` directly, or through a copy of the
	// element (`got := toks[i]; got.f`, `for _, want := range v.toks { want.f }`); returns the slice indexed
	elemField := func(v ssa.Value, f *types.Var) (ssa.Value, bool) {
		elemOf := func(e ssa.Value) (ssa.Value, bool) {
			for _, o := range p.origins(e, originOpts{local: true}) {
				if u, ok := o.(*ssa.UnOp); ok && u.Op == token.MUL {
					if ia, ok := u.X.(*ssa.IndexAddr); ok {
						return ia.X, true
					}
				}
			}
			return nil, false
		}
		for _, o := range p.origins(v, originOpts{local: true}) {
			switch x := o.(type) {
			case *ssa.Field:
				st, ok := x.X.Type().Underlying().(*types.Struct)
				if !ok || st.Field(x.Field) != f {
					continue
				}
				if base, ok := elemOf(x.X); ok {
					return base, true
				}
				return nil, true // a token value of unknown provenance
			case *ssa.UnOp:
				fa, ok := x.X.(*ssa.FieldAddr)
				if !ok || fieldOfAddr(fa) != f {
					continue
				}
				if ia, ok := fa.X.(*ssa.IndexAddr); ok {
					return ia.X, true
				}
				// field of a local copy of an element
				if al, ok := fa.X.(*ssa.Alloc); ok {
					for _, st := range p.cellStores(al) {
						if base, ok := elemOf(st.Val); ok {
							return base, true
						}
					}
				}
				return nil, true
			}
		}
		return nil, false
	}
	fromReq := func(base ssa.Value) bool {
		if base == nil {
			return false
		}
		for _, o := range p.origins(base, originOpts{local: true, throughSlice: true}) {
			if o == ssa.Value(reqToks) {
				return true
			}
		}
		return false
	}
	isReqTok := func(v ssa.Value, f *types.Var) bool {
		base, ok := elemField(v, f)
		return ok && fromReq(base)
	}
	isTmplTok := func(v ssa.Value, f *types.Var) bool {
		base, ok := elemField(v, f)
		return ok && !fromReq(base)
	}
	rejects := func(ifi *ssa.If, succ int) bool {
		b := ifi.Block().Succs[succ]
		for i := 0; i < 4; i++ {
			for _, in := range b.Instrs {
				if rt, ok := in.(*ssa.Return); ok {
					k, isC := constInt(rt.Results[0])
					return isC && k < 0
				}
			}
			if len(b.Succs) != 1 {
				return false
			}
			b = b.Succs[0]
		}
		return false
	}
	text, kindLit, kindSlash := false, false, false
	var pos token.Pos = fn.Pos()
	eachInstr(fn, func(in ssa.Instruction) {
		ifi, ok := in.(*ssa.If)
		if !ok {
			return
		}
		bo, ok := ifi.Cond.(*ssa.BinOp)
		if !ok || (bo.Op != token.NEQ && bo.Op != token.EQL) {
			return
		}
		mismatch := 0
		if bo.Op == token.EQL {
			mismatch = 1
		}
		switch {
		case (isReqTok(bo.X, valF) && isTmplTok(bo.Y, valF)) || (isReqTok(bo.Y, valF) && isTmplTok(bo.X, valF)):
			if rejects(ifi, mismatch) {
				text = true
				pos = bo.Pos()
			}
		case isReqTok(bo.X, typF) || isReqTok(bo.Y, typF):
			other := bo.Y
			if isReqTok(bo.Y, typF) {
				other = bo.X
			}
			if !rejects(ifi, mismatch) {
				return
			}
			if k, isC := constInt(other); isC {
				// inside `case tokenSlash:` comparing with the constant is the same test as comparing with tok.typ
				if sl, ok := p.constIntNamed("tokenSlash"); ok && k == sl {
					kindSlash = true
				} else {
					kindLit = true
				}
			} else if isTmplTok(other, typF) {
				kindSlash = true
			}
		}
	})
	r.check(text, "(*variable).index/literal-text-compared", pos, "a literal inside a variable pattern rejects a request segment with different text",
		"the literal arm never rejects on `template text != request text`: {name=shelves/*} also matches /other/x (mis-dispatch, captured text covers segments the template does not)")
	r.check(kindLit, "(*variable).index/literal-kind-compared", fn.Pos(), "the literal arm rejects a request token that is not a path segment", "the literal arm does not reject on the request token's kind")
	r.check(kindSlash, "(*variable).index/slash-kind-compared", fn.Pos(), "the separator arm rejects a request token of another kind", "the separator arm does not compare the request token's kind with the template's: ':' is accepted where '/' is expected")
}

func ruleSortedVars(r *Run) {
	p := r.P
	e := p.Effects()
	// additions re-sorted
	n := 0
	for _, fn := range p.ModuleFuncs() {
		for _, w := range e.OwnWrites(fn) {
			if w.Target() != "path.variables" || w.Kind != "append" {
				continue
			}
			n++
			isSort := func(in ssa.Instruction) bool {
				for _, w2 := range e.OwnWrites(fn) {
					if w2.Instr == in && w2.Kind == "sort" && w2.Target() == "path.variables" {
						return true
					}
				}
				return false
			}
			q := pathQuery{fn: fn, start: w.Instr, target: isReturn, barrier: isSort}
			if pth, _ := q.find(); pth != nil {
				r.bad(shortFunc(fn)+"/sorted-after-add", w.Instr.Pos(), "an element is added to path.variables and a return is reachable without re-sorting: the order in which variables are tried depends on registration order")
			} else {
				r.ok(shortFunc(fn)+"/sorted-after-add", w.Instr.Pos(), "every addition to path.variables is followed by a sort on every path")
			}
		}
	}
	if n == 0 {
		r.undecided("path.variables/additions", token.NoPos, "no append to path.variables found")
	}
	// removals keep the order: an element of a live path.variables is overwritten only by the sort itself (Swap) -
	// a swap-with-last removal leaves the slice unsorted, and which of two matching patterns wins then depends on
	// the registration / drop history
	for _, fn := range p.ModuleFuncs() {
		if fn.Name() == "Swap" && fn.Signature.Recv() != nil {
			continue
		}
		fn := fn
		site := 0
		for _, w := range e.OwnWrites(fn) {
			if w.Target() != "path.variables" || w.Kind != "elem-store" || w.Fresh {
				continue
			}
			site++
			isSort := func(in ssa.Instruction) bool {
				for _, w2 := range e.OwnWrites(fn) {
					if w2.Instr == in && w2.Kind == "sort" && w2.Target() == "path.variables" {
						return true
					}
				}
				return false
			}
			if pth, _ := (pathQuery{fn: fn, start: w.Instr, target: isReturn, barrier: isSort}).find(); pth != nil {
				r.bad(fmt.Sprintf("%s/order-kept-on-removal#%d", shortFunc(fn), site), w.Instr.Pos(), "an element of path.variables is overwritten in place (swap-with-last removal) and a return is reachable without re-sorting: the slice is no longer sorted, and the pattern that wins for a path matched by two of them depends on the order of earlier registrations and drops")
			}
		}
	}
	// Less is strict < on name
	less := p.Method("variables", "Less")
	if less == nil {
		r.missing("method (variables).Less")
	} else {
		nameF := p.StructField("variable", "name")
		good := false
		eachInstr(less, func(in ssa.Instruction) {
			rt, ok := in.(*ssa.Return)
			if !ok {
				return
			}
			bo, ok := rt.Results[0].(*ssa.BinOp)
			if !ok || bo.Op != token.LSS {
				return
			}
			// operands: p[i].name and p[j].name in that order
			idx := func(v ssa.Value) ssa.Value {
				u, ok := v.(*ssa.UnOp)
				if !ok {
					return nil
				}
				fa, ok := u.X.(*ssa.FieldAddr)
				if !ok || fieldOfAddr(fa) != nameF {
					return nil
				}
				u2, ok := fa.X.(*ssa.UnOp)
				if !ok {
					return nil
				}
				ia, ok := u2.X.(*ssa.IndexAddr)
				if !ok {
					return nil
				}
				return ia.Index
			}
			if idx(bo.X) == ssa.Value(less.Params[1]) && idx(bo.Y) == ssa.Value(less.Params[2]) {
				good = true
			}
		})
		r.check(good, "(variables).Less/strict-on-name", less.Pos(), "Less(i, j) is p[i].name < p[j].name", "Less is not the strict order p[i].name < p[j].name: the sorted order is not a function of the patterns alone")
	}
	// name = toks.String(), unique per node
	av := p.Method("path", "addVariable")
	if av == nil {
		r.missing("method (*path).addVariable")
		return
	}
	nameOK := false
	nameF := p.StructField("variable", "name")
	variableT := p.NamedType("variable")
	// addVariable and, call chain by call chain, the helpers it uses (a constructor newVariable(name, …) shared with
	// clone is judged with the arguments addVariable passes)
	region := p.rootedRegion(av)
	for _, n := range region {
		n := n
		eachInstr(n.fn, func(in ssa.Instruction) {
			st, ok := in.(*ssa.Store)
			if !ok {
				return
			}
			fa, ok := st.Addr.(*ssa.FieldAddr)
			if !ok || fieldOfAddr(fa) != nameF {
				return
			}
			for _, o := range p.origins(n.bind.subst(st.Val), originOpts{}) {
				if c, ok := o.(*ssa.Call); ok && calleeName(c) == "(larking.io/larking.tokens).String" && p.onlyFrom(c.Call.Args[0], av.Params[1]) {
					nameOK = true
				}
			}
		})
	}
	r.check(nameOK, "(*path).addVariable/name-is-pattern-text", av.Pos(), "the sort key is the pattern's own token text", "variable.name is not toks.String() of the pattern: the sort key is not a function of the pattern")
	uniq := false
	eachInstr(av, func(in ssa.Instruction) {
		c, ok := in.(*ssa.Call)
		if !ok || calleeName(c) != "(*larking.io/larking.path).findVariable" {
			return
		}
		okv := extractOf(c, 1)
		for _, n := range region {
			n := n
			eachInstr(n.fn, func(x ssa.Instruction) {
				al, isAl := x.(*ssa.Alloc)
				if !isAl || namedOf(al.Type()) != variableT {
					return
				}
				if p.guardedInChain(n, al.Block(), func(g guardFact) bool { return g.Cond == okv && !g.True }) {
					uniq = true
				}
			})
		}
	})
	r.check(uniq, "(*path).addVariable/unique-names", av.Pos(), "a new variable is created only when no variable of that name exists on the node", "a variable is created without the findVariable check: duplicate patterns make the sorted order ambiguous")
}

func ruleNoMapOrder(r *Run) {
	p := r.P
	m := p.Method("state", "match")
	if m == nil {
		r.missing("method (*state).match")
		return
	}
	reach := p.Reach([]*ssa.Function{m})
	bad := 0
	for _, fn := range sortedFuncs(reach) {
		eachInstr(fn, func(in ssa.Instruction) {
			rg, ok := in.(*ssa.Range)
			if !ok {
				return
			}
			if _, isMap := rg.X.Type().Underlying().(*types.Map); isMap {
				bad++
				r.bad(shortFunc(fn)+"/range-over-map", in.Pos(), "a function on the matching path ranges over a map: the outcome can depend on map iteration order (%s)", p.callPath(reach, fn))
			}
		})
	}
	if bad == 0 {
		r.ok("(*state).match/reachable", m.Pos(), "%d functions reachable from match, none ranges over a map", len(reach))
	}
}

// isBoundsPrecheck: rt is reached only where `v < 0` (or `v >= len(s)`) holds for a value v that the function uses
// as a slice/array index on the other edge of that test.
func (p *Program) isBoundsPrecheck(rt *ssa.Return) bool {
	fn := rt.Parent()
	usedAsIndex := func(v ssa.Value) bool {
		found := false
		eachInstr(fn, func(in ssa.Instruction) {
			switch x := in.(type) {
			case *ssa.IndexAddr:
				if x.Index == v || p.sameValue(x.Index, v) {
					found = true
				}
			case *ssa.Index:
				if x.Index == v || p.sameValue(x.Index, v) {
					found = true
				}
			}
		})
		return found
	}
	return p.guardedInEveryContext(rt.Block(), func(g guardFact) bool {
		x, y, op, ok := g.cmp()
		if !ok {
			return false
		}
		if k, isC := constInt(y); isC && k == 0 && op == token.LSS && usedAsIndex(x) {
			return true
		}
		if lc, isL := y.(*ssa.Call); isL && calleeName(lc) == "builtin.len" && (op == token.GEQ || op == token.GTR) && usedAsIndex(x) {
			return true
		}
		return false
	})
}

func ruleKeyAgree(r *Run) {
	p := r.P
	valF := p.StructField("token", "val")
	// addPath: key = parent.val + value.val
	ap := p.Method("path", "addPath")
	sh := p.searchShape()
	if ap == nil || sh == nil || sh.litLookup == nil {
		r.missing("(*path).addPath / the literal lookup in (*path).search")
		return
	}
	concatOfVals := func(v ssa.Value) (a, b ssa.Value, ok bool) {
		bo, isB := v.(*ssa.BinOp)
		if !isB || bo.Op != token.ADD {
			return nil, nil, false
		}
		return bo.X, bo.Y, true
	}
	isValOf := func(v ssa.Value) ssa.Value { // returns the token (struct value or element address) whose .val is loaded
		switch x := v.(type) {
		case *ssa.Field:
			st := x.X.Type().Underlying().(*types.Struct)
			if st.Field(x.Field) == valF {
				return x.X
			}
		case *ssa.UnOp:
			if fa, ok := x.X.(*ssa.FieldAddr); ok && fieldOfAddr(fa) == valF {
				return fa.X
			}
		}
		return nil
	}
	// writer
	wOK := false
	eachInstr(ap, func(in ssa.Instruction) {
		var key ssa.Value
		switch x := in.(type) {
		case *ssa.MapUpdate:
			key = x.Key
		default:
			return
		}
		a, b, ok := concatOfVals(key)
		if !ok {
			return
		}
		ta, tb := isValOf(a), isValOf(b)
		// parameters parent (1) then value (2), possibly spilled
		isParam := func(t ssa.Value, par *ssa.Parameter) bool {
			if t == nil {
				return false
			}
			for _, o := range p.origins(t, originOpts{}) {
				if o == ssa.Value(par) {
					return true
				}
			}
			if u, ok := t.(*ssa.UnOp); ok {
				for _, o := range p.origins(u, originOpts{}) {
					if o == ssa.Value(par) {
						return true
					}
				}
			}
			if al, ok := t.(*ssa.Alloc); ok {
				for _, st := range p.cellStores(al) {
					if st.Val == ssa.Value(par) {
						return true
					}
				}
			}
			return false
		}
		if len(ap.Params) > 2 && isParam(ta, ap.Params[1]) && isParam(tb, ap.Params[2]) {
			wOK = true
		}
	})
	// the concatenation may be done by the callers (addPath(sep.val + text.val)): then every call site must pass the
	// text of two different tokens, separator first
	if !wOK {
		var keyPar *ssa.Parameter
		eachInstr(ap, func(in ssa.Instruction) {
			if mu, ok := in.(*ssa.MapUpdate); ok {
				for _, o := range p.origins(mu.Key, originOpts{}) {
					if par, ok := o.(*ssa.Parameter); ok && par.Parent() == ap {
						keyPar = par
					}
				}
			}
		})
		if keyPar != nil {
			sites, good := 0, 0
			for _, fn := range p.ModuleFuncs() {
				eachInstr(fn, func(in ssa.Instruction) {
					c, ok := in.(ssa.CallInstruction)
					if !ok || c.Common().StaticCallee() != ap {
						return
					}
					sites++
					a, b, ok := concatOfVals(argAt(c, paramIndex(keyPar)))
					if !ok {
						return
					}
					ta, tb := isValOf(a), isValOf(b)
					if ta != nil && tb != nil && ta != tb && !p.sameValue(ta, tb) {
						good++
					}
				})
			}
			wOK = sites > 0 && good == sites
		}
	}
	r.check(wOK, "(*path).addPath/key", ap.Pos(), "edge key = separator token text + segment token text", "addPath does not key the edge by parent.val + value.val")
	// reader: toks[0].val + toks[1].val
	rOK := false
	a, b, ok := concatOfVals(sh.litLookup.Index)
	if ok {
		ia, ib := isValOf(a), isValOf(b)
		i0, ok0 := ia.(*ssa.IndexAddr)
		i1, ok1 := ib.(*ssa.IndexAddr)
		if ok0 && ok1 && i0.X == ssa.Value(sh.fn.Params[1]) && i1.X == ssa.Value(sh.fn.Params[1]) {
			k0, c0 := constInt(i0.Index)
			k1, c1 := constInt(i1.Index)
			if c0 && c1 && k0 == 0 && k1 == 1 {
				rOK = true
			}
		}
	}
	r.check(rOK, "(*path).search/key", sh.litLookup.Pos(), "edge followed by separator text + segment text of the next two tokens (same construction as addPath)",
		"search does not look the literal edge up by toks[0].val + toks[1].val: reader's and writer's key disagree, literal segments stop matching")
}

// guardedLeaf is a value a variable may hold together with the branch facts under which it holds it.
type guardedLeaf struct {
	v     ssa.Value
	facts []guardFact
	pred  *ssa.BasicBlock // the predecessor block of the last phi edge through which the leaf was selected (nil if none)
}

// guardedLeaves walks v back through phis, local cells and transparent helpers'
// returns, collecting for every leaf the branch conditions of the path taken.
func (p *Program) guardedLeaves(v ssa.Value) []guardedLeaf {
	var out []guardedLeaf
	type key struct {
		v ssa.Value
		n int
	}
	seen := map[key]bool{}
	var lastPred *ssa.BasicBlock
	var walk func(v ssa.Value, facts []guardFact, depth int)
	walk = func(v ssa.Value, facts []guardFact, depth int) {
		if v == nil || depth > 12 || seen[key{v, len(facts)}] {
			return
		}
		seen[key{v, len(facts)}] = true
		with := func(extra []guardFact) []guardFact {
			return append(append([]guardFact{}, facts...), extra...)
		}
		switch x := v.(type) {
		case *ssa.Phi:
			for i, e := range x.Edges {
				saved := lastPred
				if _, nested := e.(*ssa.Phi); !nested {
					lastPred = x.Block().Preds[i]
				}
				walk(e, with(edgeFacts(x.Block().Preds[i], x.Block())), depth+1)
				lastPred = saved
			}
			return
		case *ssa.Extract:
			if c, ok := x.Tuple.(*ssa.Call); ok {
				if callee := c.Call.StaticCallee(); callee != nil && !c.Call.IsInvoke() && p.isTransparent(callee) {
					errChecked := callErrChecked(c)
					eachInstr(callee, func(in ssa.Instruction) {
						if rt, ok := in.(*ssa.Return); ok && x.Index < len(rt.Results) {
							// `return zero, err`: the caller tests the error and does not use the value
							if errChecked && returnsNonNilError(rt) {
								return
							}
							saved := lastPred
							if _, isPhi := rt.Results[x.Index].(*ssa.Phi); !isPhi {
								lastPred = rt.Block() // the value is selected by reaching this return
							}
							walk(rt.Results[x.Index], with(guardsOf(rt.Block())), depth+1)
							lastPred = saved
						}
					})
					return
				}
			}
		case *ssa.Call:
			if callee := x.Call.StaticCallee(); callee != nil && !x.Call.IsInvoke() && p.isTransparent(callee) && callee.Signature.Results().Len() == 1 {
				eachInstr(callee, func(in ssa.Instruction) {
					if rt, ok := in.(*ssa.Return); ok && len(rt.Results) == 1 {
						saved := lastPred
						if _, isPhi := rt.Results[0].(*ssa.Phi); !isPhi {
							lastPred = rt.Block() // the value is selected by reaching this return
						}
						walk(rt.Results[0], with(guardsOf(rt.Block())), depth+1)
						lastPred = saved
					}
				})
				return
			}
		case *ssa.UnOp:
			if x.Op == token.MUL {
				if al, ok := p.cellRoot(x.X).(*ssa.Alloc); ok {
					if sts := p.reachingStores(al, x); len(sts) > 0 {
						for _, st := range sts {
							walk(st.Val, with(guardsOf(st.Block())), depth+1)
						}
						return
					}
				}
			}
		case *ssa.FreeVar:
			if b := p.freeVarBinding(x); b != nil {
				walk(b, facts, depth+1)
				return
			}
		case *ssa.Parameter:
			// a transparent helper's parameter is what its callers pass, under the guards of the call
			if fn := x.Parent(); p.isTransparent(fn) {
				sites := p.helpers().sites[fn]
				if len(sites) > 0 {
					for _, s := range sites {
						if a := argAt(s, paramIndex(x)); a != nil {
							walk(a, with(guardsOf(s.Block())), depth+1)
						}
					}
					return
				}
			}
		}
		out = append(out, guardedLeaf{v, facts, lastPred})
	}
	walk(v, nil, 0)
	return out
}

// callErrChecked: the call's last result is an error that the caller compares with nil in a branch condition.
func callErrChecked(c *ssa.Call) bool {
	res := c.Call.Signature().Results()
	if res.Len() < 2 || !isErrorType(res.At(res.Len()-1).Type()) || c.Referrers() == nil {
		return false
	}
	for _, ref := range *c.Referrers() {
		ex, ok := ref.(*ssa.Extract)
		if !ok || ex.Index != res.Len()-1 || ex.Referrers() == nil {
			continue
		}
		for _, r2 := range *ex.Referrers() {
			if bo, ok := r2.(*ssa.BinOp); ok && (bo.Op == token.NEQ || bo.Op == token.EQL) && (isNilConst(bo.X) || isNilConst(bo.Y)) && bo.Referrers() != nil {
				for _, r3 := range *bo.Referrers() {
					if _, ok := r3.(*ssa.If); ok {
						return true
					}
				}
			}
		}
	}
	return false
}

// returnsNonNilError: the last result of the return is an error value that is certainly not nil (a fresh error).
func returnsNonNilError(rt *ssa.Return) bool {
	if len(rt.Results) < 2 {
		return false
	}
	last := rt.Results[len(rt.Results)-1]
	if !isErrorType(last.Type()) {
		return false
	}
	switch x := last.(type) {
	case *ssa.Call:
		n := calleeName(x)
		return n == "fmt.Errorf" || n == "errors.New" || strings.HasSuffix(n, "status.Errorf") || strings.HasSuffix(n, "status.Error")
	case *ssa.MakeInterface:
		return true
	}
	return false
}

func isErrorType(t types.Type) bool {
	return types.Identical(t, types.Universe.Lookup("error").Type())
}

// patternKindOf: the HttpRule_<Kind> the facts select (comma-ok type assertion of the pattern taken on its true edge).
func patternKindOf(facts []guardFact) (string, *ssa.TypeAssert) {
	for _, g := range facts {
		ex, ok := g.Cond.(*ssa.Extract)
		if !ok || ex.Index != 1 || !g.True {
			continue
		}
		ta, ok := ex.Tuple.(*ssa.TypeAssert)
		if !ok {
			continue
		}
		if nm := namedOf(ta.AssertedType); nm != nil && strings.HasPrefix(nm.Obj().Name(), "HttpRule_") {
			return strings.TrimPrefix(nm.Obj().Name(), "HttpRule_"), ta
		}
	}
	return "", nil
}

// PATTERN-VERB: for every HttpRule pattern kind, the key under which addRule registers the method in path.methods
// is the matching HTTP verb and the template that is lexed is that pattern's own string. Decided on values (the key
// of the map update, the lexer's input) and the type-switch facts under which they are chosen, so local names, the
// order of the cases and an extracted helper do not matter.
func rulePatternVerb(r *Run) {
	p := r.P
	ar := p.Method("path", "addRule")
	if ar == nil {
		r.missing("method (*path).addRule")
		return
	}
	methodT := p.NamedType("method")
	inputF := p.StructField("lexer", "input")
	var keyVal, tmplVal ssa.Value
	var keyPos, tmplPos token.Pos
	p.eachInstrRegion(ar, func(_ *ssa.Function, in ssa.Instruction) {
		switch x := in.(type) {
		case *ssa.MapUpdate:
			if mt, ok := x.Map.Type().Underlying().(*types.Map); ok && namedOf(mt.Elem()) == methodT && methodT != nil {
				if b, ok := mt.Key().Underlying().(*types.Basic); ok && b.Kind() == types.String {
					keyVal, keyPos = x.Key, x.Pos()
				}
			}
		case *ssa.Store:
			if fa, ok := x.Addr.(*ssa.FieldAddr); ok && inputF != nil && fieldOfAddr(fa) == inputF {
				tmplVal, tmplPos = x.Val, x.Pos()
			}
		}
	})
	if keyVal == nil {
		r.missing("registration of the method in path.methods (map update) in addRule")
		return
	}
	if tmplVal == nil {
		r.missing("store of the template into lexer.input in addRule")
		return
	}
	want := map[string]string{"Get": "GET", "Put": "PUT", "Post": "POST", "Delete": "DELETE", "Patch": "PATCH"}
	verbs := map[string][]guardedLeaf{}
	tmpls := map[string][]guardedLeaf{}
	var stray []string
	for _, l := range p.guardedLeaves(keyVal) {
		k, _ := patternKindOf(l.facts)
		if k == "" {
			stray = append(stray, "verb "+describeValue(l.v))
			continue
		}
		verbs[k] = append(verbs[k], l)
	}
	for _, l := range p.guardedLeaves(tmplVal) {
		k, _ := patternKindOf(l.facts)
		if k == "" {
			stray = append(stray, "template "+describeValue(l.v))
			continue
		}
		tmpls[k] = append(tmpls[k], l)
	}
	// template leaf: load of field <name> (optionally .Custom.<name>) of the value asserted to that pattern type
	fieldLoadOfAssert := func(l guardedLeaf, names ...string) bool {
		_, ta := patternKindOf(l.facts)
		cur := l.v
		for i := len(names) - 1; i >= 0; i-- {
			u, ok := cur.(*ssa.UnOp)
			if !ok || u.Op != token.MUL {
				return false
			}
			fa, ok := u.X.(*ssa.FieldAddr)
			if !ok || fieldOfAddr(fa).Name() != names[i] {
				return false
			}
			cur = fa.X
		}
		base := cur
		for _, o := range p.origins(base, originOpts{local: true}) {
			if ex, ok := o.(*ssa.Extract); ok && ex.Tuple == ssa.Value(ta) && ex.Index == 0 {
				return true
			}
		}
		return false
	}
	kinds := []string{"Get", "Put", "Post", "Delete", "Patch"}
	for _, kind := range kinds {
		key := "(*path).addRule/pattern:" + kind
		vs, ts := verbs[kind], tmpls[kind]
		if len(vs) == 0 || len(ts) == 0 {
			r.bad(key, keyPos, "no case for HttpRule_%s reaches the registration: rules with this verb are rejected as unsupported", kind)
			continue
		}
		good, got := true, ""
		for _, l := range vs {
			if sv, ok := constString(l.v); !ok || sv != want[kind] {
				good = false
				got = "verb " + describeValue(l.v)
			}
		}
		for _, l := range ts {
			if !fieldLoadOfAssert(l, kind) {
				good = false
				got += " template " + describeValue(l.v)
			}
		}
		r.check(good, key, keyPos, fmt.Sprintf("verb %q, template from .%s", want[kind], kind),
			fmt.Sprintf("pattern %s is registered with%s; it must be verb %q with the template of field %s", kind, got, want[kind], kind))
	}
	// custom: upper-cased kind, custom path
	{
		key := "(*path).addRule/pattern:Custom"
		vs, ts := verbs["Custom"], tmpls["Custom"]
		if len(vs) == 0 || len(ts) == 0 {
			r.bad(key, keyPos, "no case for HttpRule_Custom reaches the registration")
		} else {
			good := true
			for _, l := range vs {
				c, ok := l.v.(*ssa.Call)
				if !ok || calleeName(c) != "strings.ToUpper" {
					good = false
					continue
				}
				arg := guardedLeaf{v: c.Call.Args[0], facts: l.facts}
				if !fieldLoadOfAssert(arg, "Custom", "Kind") {
					good = false
				}
			}
			for _, l := range ts {
				if !fieldLoadOfAssert(l, "Custom", "Path") {
					good = false
				}
			}
			r.check(good, key, keyPos, "verb = upper-cased custom kind, template = custom path", "custom pattern is not registered under strings.ToUpper(Custom.Kind) with Custom.Path")
		}
	}
	_ = tmplPos
	if len(stray) > 0 {
		sort.Strings(stray)
		r.bad("(*path).addRule/pattern:undetermined", keyPos, "a registration verb or lexed template is not determined by the rule's pattern kind: %s", strings.Join(stray, "; "))
	}
}

func ruleVerbKey(r *Run) {
	p := r.P
	sh := p.searchShape()
	if sh == nil {
		r.missing("method (*path).search")
		return
	}
	methodsF := p.StructField("path", "methods")
	verbPar := sh.fn.Params[2]
	good, n := true, 0
	for _, node := range p.rootedRegion(sh.fn) {
		node := node
		eachInstr(node.fn, func(in ssa.Instruction) {
			lk, ok := in.(*ssa.Lookup)
			if !ok {
				return
			}
			for _, o := range p.origins(lk.X, originOpts{}) {
				if loadsField(o, methodsF) {
					n++
					if idx := node.bind.subst(lk.Index); idx != ssa.Value(verbPar) && !p.onlyFrom(idx, verbPar) {
						good = false
					}
				}
			}
		})
	}
	r.check(good && n > 0, "(*path).search/leaf-keyed-by-verb", sh.fn.Pos(), "the per-verb table is indexed by the verb parameter", "the per-verb table at the leaf is not indexed by search's verb parameter: requests reach methods bound to another verb")
	// recursive calls pass the verb on unchanged
	passOK := true
	all := append([]*ssa.Call{}, sh.varCalls...)
	if sh.litCall != nil {
		all = append(all, sh.litCall)
	}
	for _, c := range all {
		if c.Call.Args[2] != ssa.Value(verbPar) {
			passOK = false
		}
	}
	r.check(passOK, "(*path).search/verb-passed-down", sh.fn.Pos(), "recursive calls pass the verb on unchanged", "a recursive search call does not pass the verb on unchanged")
	// serveHTTP: verb is r.Method or the WebSocket kind
	sv := p.Method("Mux", "serveHTTP")
	if sv == nil {
		r.missing("method (*Mux).serveHTTP")
		return
	}
	wsConst, _ := p.Lark.Types.Scope().Lookup("kindWebsocket").(*types.Const)
	eachInstr(sv, func(in ssa.Instruction) {
		if !isCall(in, nMatch) {
			return
		}
		arg := in.(ssa.CallInstruction).Common().Args[2]
		ok := true
		what := ""
		nMethod := 0
		for _, o := range p.origins(arg, originOpts{}) {
			if s, isC := constString(o); isC {
				if wsConst == nil || s != constant.StringVal(wsConst.Val()) {
					ok = false
					what = fmt.Sprintf("constant %q", s)
				}
				continue
			}
			if f := loadedField(o); f != nil && f.Name() == "Method" {
				nMethod++
				continue
			}
			ok = false
			what = describeValue(o)
		}
		r.check(ok && nMethod > 0, "(*Mux).serveHTTP/verb-source", in.Pos(), "the verb handed to match is r.Method, or the WebSocket kind for upgrade requests", "the verb handed to match is "+what+", not r.Method / the WebSocket kind")
	})
	// health's custom kind upper-cased equals larking's WebSocket kind
	if wsConst != nil {
		hk := ""
		for _, f := range p.Health.Syntax {
			ast.Inspect(f, func(n ast.Node) bool {
				kv, ok := n.(*ast.KeyValueExpr)
				if !ok {
					return true
				}
				if id, ok := kv.Key.(*ast.Ident); ok && id.Name == "Kind" {
					if v := constOf(p.Health, kv.Value); v != nil && v.Kind() == constant.String {
						hk = constant.StringVal(v)
					}
				}
				return true
			})
		}
		r.check(strings.ToUpper(hk) == constant.StringVal(wsConst.Val()), "health.AddHealthz/websocket-kind", wsConst.Pos(), "the custom kind health registers is the kind serveHTTP uses for upgrades",
			fmt.Sprintf("health registers custom kind %q but WebSocket upgrades are matched under %s", hk, wsConst.Val().ExactString()))
	}
}

func ruleLeafExhausted(r *Run) {
	p := r.P
	sh := p.searchShape()
	if sh == nil {
		r.missing("method (*path).search")
		return
	}
	methodsF := p.StructField("path", "methods")
	allF := p.StructField("path", "methodAll")
	toks := sh.fn.Params[1]
	n := 0
	good := true
	// search and, call chain by call chain, the helpers it uses (a lookup helper shared with addRule is judged under
	// the guards of search's own call)
	for _, node := range p.rootedRegion(sh.fn) {
		node := node
		eachInstr(node.fn, func(in ssa.Instruction) {
			isLeafRead := false
			switch x := in.(type) {
			case *ssa.Lookup:
				for _, o := range p.origins(x.X, originOpts{}) {
					if loadsField(o, methodsF) {
						isLeafRead = true
					}
				}
			case *ssa.UnOp:
				if loadsField(x, allF) {
					isLeafRead = true
				}
			}
			if !isLeafRead {
				return
			}
			n++
			ok := p.guardedInChain(node, in.Block(), func(g guardFact) bool {
				bo, isB := g.Cond.(*ssa.BinOp)
				if !isB {
					return false
				}
				lc, isL := bo.X.(*ssa.Call)
				if !isL || calleeName(lc) != "builtin.len" || !p.onlyFrom(lc.Call.Args[0], toks) {
					return false
				}
				k, isC := constInt(bo.Y)
				if !isC {
					return false
				}
				// len(toks) <= 1  (or < 2, == 1, == 0 …)
				switch {
				case g.True && bo.Op == token.LEQ && k <= 1, g.True && bo.Op == token.LSS && k <= 2, g.True && bo.Op == token.EQL && k <= 1,
					!g.True && bo.Op == token.GTR && k <= 1, !g.True && bo.Op == token.GEQ && k <= 2:
					return true
				}
				return false
			})
			if !ok {
				good = false
			}
		})
	}
	r.check(good && n > 0, "(*path).search/leaf-only-when-exhausted", sh.fn.Pos(), "the method tables are consulted only when at most the end marker is left",
		"a method can be returned while request tokens are still unmatched: /v1/a/b/EXTRA is dispatched to the method of /v1/a/b")
}

func ruleVarsOnly(r *Run) {
	p := r.P
	sh := p.searchShape()
	if sh == nil {
		r.missing("method (*path).search")
		return
	}
	varsF := p.StructField("method", "vars")
	fromVars := func(v ssa.Value) bool {
		for _, o := range p.origins(v, originOpts{}) {
			u, ok := o.(*ssa.UnOp)
			if !ok {
				return false
			}
			ia, ok := u.X.(*ssa.IndexAddr)
			if !ok {
				return false
			}
			is := false
			for _, so := range p.origins(ia.X, originOpts{}) {
				if loadsField(so, varsF) {
					is = true
				}
			}
			if !is {
				return false
			}
		}
		return true
	}
	n := 0
	// search and the helpers it calls (the conversion may sit in a helper: capture(fds, toks))
	region := map[*ssa.Function]bool{sh.fn: true}
	p.eachInstrRegion(sh.fn, func(g *ssa.Function, _ ssa.Instruction) { region[g] = true })
	for _, st := range p.storesToField(nil, "param", "fds") {
		if !region[st.Parent()] || st.Parent().Name() == "parseParam" {
			continue
		}
		n++
		r.check(fromVars(st.Val), "(*path).search/param-fields-from-method.vars", st.Pos(), "the parameter's field path comes from method.vars", "a parameter produced by routing names a field path that does not come from method.vars: routing sets a field the template does not name")
	}
	p.eachInstrRegion(sh.fn, func(g *ssa.Function, in ssa.Instruction) {
		if g.Name() == "parseParam" {
			return
		}
		if c, ok := in.(*ssa.Call); ok && calleeName(c) == nParseParam {
			n++
			r.check(fromVars(c.Call.Args[0]), "(*path).search/capture-converted-for-method.vars", in.Pos(), "the capture is converted for the field the template names", "the capture is converted for a field path that does not come from method.vars")
		}
	})
	if n == 0 {
		r.undecided("(*path).search/params", sh.fn.Pos(), "no parameter construction found in search")
	}
}

func init() {
	register(&Rule{Name: "SEP-CHECK", Floor: 1,
		Doc: "in path.search variables are tried only where the separator token in front of the segment is a '/' (a ':' introduces the verb, which is matched as a literal only)",
		Run: ruleSepCheck})
}

func ruleSepCheck(r *Run) {
	p := r.P
	sh := p.searchShape()
	if sh == nil || len(sh.varElems) == 0 {
		r.missing("the variable loop of (*path).search")
		return
	}
	typF := p.StructField("token", "typ")
	slash, ok := p.tokenConst("tokenSlash")
	if !ok {
		r.missing("const tokenSlash")
		return
	}
	toks := sh.fn.Params[1]
	good := false
	for _, g := range guardsOf(sh.varElems[0].Block()) {
		bo, isB := g.Cond.(*ssa.BinOp)
		if !isB {
			continue
		}
		// toks[0].typ compared with tokenSlash
		u, isU := bo.X.(*ssa.UnOp)
		if !isU {
			continue
		}
		fa, isF := u.X.(*ssa.FieldAddr)
		if !isF || fieldOfAddr(fa) != typF {
			continue
		}
		ia, isI := fa.X.(*ssa.IndexAddr)
		if !isI || ia.X != ssa.Value(toks) {
			continue
		}
		if k, isC := constInt(ia.Index); !isC || k != 0 {
			continue
		}
		if k, isC := constInt(bo.Y); isC && k == slash && ((bo.Op == token.EQL && g.True) || (bo.Op == token.NEQ && !g.True)) {
			good = true
		}
	}
	r.check(good, "(*path).search/variables-only-after-slash", sh.varElems[0].Pos(), "the variable loop runs only where toks[0] is a '/'",
		"the variable loop is entered whatever the separator token is: GET /v1/messages:123 matches the template /v1/messages/{message_id} (a ':' is accepted where the template has '/'), so a request reaches a method whose template does not cover its path")
}
