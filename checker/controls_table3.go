package main

// Controls for the rules added or strengthened after the first round of seeded changes.
func init() {
	control(&Control{ID: "escapeset-del", Rule: "ESCAPE-SET", File: "larking/grpc.go",
		Old: "if c < ' ' || c > '~' || c == '%' {", New: "if c < ' ' || c > 0x7f || c == '%' {", Expect: "escape-set", Why: "DEL (0x7f) written raw into grpc-message"})
	control(&Control{ID: "fwderrprompt-wait-first", Rule: "FWD-ERR-PROMPT", File: "larking/mux.go",
		Old:    "\t\t\tif isStreamError(outErr) {\n\t\t\t\treturn outErr\n\t\t\t}\n\t\t\tif sd.ClientStreams {\n\t\t\t\twg.Wait()\n",
		New:    "\t\t\tif sd.ClientStreams {\n\t\t\t\twg.Wait()\n\t\t\t}\n\t\t\tif isStreamError(outErr) {\n\t\t\t\treturn outErr\n\t\t\t}\n\t\t\tif sd.ClientStreams {\n",
		Expect: "backend-error-before-join", Why: "the pump is joined before the backend's error is returned"})
	control(&Control{ID: "slicecap-no-guard", Rule: "SLICE-CAP", File: "larking/grpc.go",
		Old:    "\tif cap(b) < 5 {\n\t\tb = make([]byte, 0, growcap(cap(b), 5))\n\t}\n\tb = b[:5] // 1 byte compression flag, 4 bytes message length\n\n\tif _, err := io.ReadFull(s.r, b); err != nil {",
		New:    "\tb = b[:5] // 1 byte compression flag, 4 bytes message length\n\n\tif _, err := io.ReadFull(s.r, b); err != nil {",
		Expect: "RecvMsg/reslice", Why: "pooled buffer re-sliced to the header length without a capacity guard"})
	control(&Control{ID: "readfulleof-restore", Rule: "READFULL-EOF", File: "larking/grpc.go",
		Old: "\t\tif err == io.EOF {\n\t\t\t// The stream ended after the frame header.\n\t\t\terr = io.ErrUnexpectedEOF\n\t\t}\n", New: "",
		Expect: "RecvMsg/ReadFull-mid-message", Why: "restore D37: frame cut after its header is a clean EOF"})
	control(&Control{ID: "timeoutdigits-base0", Rule: "TIMEOUT-DIGITS", File: "larking/grpc.go",
		Old: "strconv.ParseUint(s[:size-1], 10, 63)", New: "strconv.ParseUint(s[:size-1], 0, 63)", Expect: "decodeTimeout/base", Why: "radix inferred from a prefix"})
	control(&Control{ID: "timeoutdigits-signed", Rule: "TIMEOUT-DIGITS", File: "larking/grpc.go",
		Old:    "\tt, err := strconv.ParseUint(s[:size-1], 10, 63)\n\tif err != nil {\n\t\treturn 0, err\n\t}\n\tconst maxHours = math.MaxInt64 / uint64(time.Hour)",
		New:    "\tt, err := strconv.ParseInt(s[:size-1], 10, 64)\n\tif err != nil {\n\t\treturn 0, err\n\t}\n\tconst maxHours = math.MaxInt64 / int64(time.Hour)",
		Expect: "decodeTimeout/unsigned", Why: "restore D38: signed timeouts accepted"})
	control(&Control{ID: "storedslice-reuse", Rule: "STORED-SLICE-REUSE", File: "larking/mux.go",
		Old:    "\tfor _, hd := range cl.handlers {\n\t\tname := hd.method\n\n\t\tvar hds []*handler\n",
		New:    "\tvar hds []*handler\n\tfor _, hd := range cl.handlers {\n\t\tname := hd.method\n\n\t\thds = hds[:0]\n",
		Expect: "removeHandler/stored", Why: "one scratch slice reused for every method's surviving handlers"})
	control(&Control{ID: "cow5-inplace-filter", Rule: "COW-5", File: "larking/mux.go",
		Old: "\t\tvar hds []*handler\n", New: "\t\thds := s.handlers[name][:0]\n",
		Expect: "state).clone/shares:state.handlers[]", Why: "removeHandler filters the shared per-method slice in place"})
	control(&Control{ID: "cow5-bulk-copy", Rule: "COW-5", File: "larking/rules.go",
		Old:    "\tfor i, v := range p.variables {\n\t\tpc.variables[i] = &variable{\n\t\t\tname: v.name, // RO\n\t\t\ttoks: v.toks, // RO\n\t\t\tnext: v.next.clone(),\n\t\t}\n\t}",
		New:    "\tcopy(pc.variables, p.variables)",
		Expect: "bulk-copy", Why: "path.clone copies the variable pointers (shares every subtree below a variable)"})
	control(&Control{ID: "webtrailer-trim-first", Rule: "WEB-TRAILER-FRAME", File: "larking/web.go",
		Old:    "\t\tif w.seenHeaders[key] {\n\t\t\tcontinue\n\t\t}\n\t\tkey = strings.TrimPrefix(key, http.TrailerPrefix)\n",
		New:    "\t\tkey = strings.TrimPrefix(key, http.TrailerPrefix)\n\t\tif w.seenHeaders[key] {\n\t\t\tcontinue\n\t\t}\n",
		Expect: "seen-test-on-raw-key", Why: "a trailer named like a sent header is dropped from the gRPC-web frame"})
	control(&Control{ID: "nilable-comp", Rule: "NILABLE-FIELD", File: "larking/grpc.go",
		Old: "\t\tif s.comp != nil {\n\t\t\tout.Compression = s.comp.Name()", New: "\t\tif s.messageEncoding != \"\" {\n\t\t\tout.Compression = s.comp.Name()",
		Expect: "SendHeader/invoke:streamGRPC.comp", Why: "nil 'identity' compressor invoked in the stats block"})
	control(&Control{ID: "selcollect-deepest-only", Rule: "SEL-COLLECT", File: "larking/mux.go",
		Old: "return append(rules, r.getRules(name)...)", New: "return r.getRules(name)", Expect: "collects-every-level", Why: "only the deepest selector node's rules are returned"})
	control(&Control{ID: "lastwriter-skip-default", Rule: "LAST-WRITER", File: "larking/rules.go",
		Old:    "\t\t\t\tdefault:\n\t\t\t\t\tcur.Set(fd, p.val)\n",
		New:    "\t\t\t\tdefault:\n\t\t\t\t\tif !fd.HasPresence() && p.val.Equal(fd.Default()) {\n\t\t\t\t\t\tbreak\n\t\t\t\t\t}\n\t\t\t\t\tcur.Set(fd, p.val)\n",
		Expect: "set-on-every-path", Why: "a zero-valued path capture does not overwrite the query/body value"})
}

func init() {
	control(&Control{ID: "fdlocal-direct", Rule: "FD-LOCAL", File: "larking/rules.go",
		Old: "\t\t\tfd = fieldOf(cur, fd)\n", New: "", Expect: "(params).set/", Why: "restore D39: stored descriptors applied directly to the picked handler's message"})
	control(&Control{ID: "slicecap-var-bound", Rule: "SLICE-CAP", File: "larking/codec.go",
		Old: "\t\tif cap(b) < n {\n\t\t\tdst := make([]byte, len(b), growcap(cap(b), n))", New: "\t\tif cap(b) < n-1 {\n\t\t\tdst := make([]byte, len(b), growcap(cap(b), n-1))", Expect: "ReadNext/extend", Why: "capacity established for another bound than the one sliced to"})
}

// Controls for the rules added after the second round of seeded changes.
func init() {
	control(&Control{ID: "pathnorm-tolower", Rule: "PATH-NORMALISE", File: "larking/mux.go",
		Old: "r.URL.Path = strings.TrimSuffix(r.URL.Path, \"/\")", New: "r.URL.Path = strings.ToLower(strings.TrimSuffix(r.URL.Path, \"/\"))", Expect: "URL.Path-rewrite", Why: "request path case-folded before matching"})
	control(&Control{ID: "pathsource-requesturi", Rule: "PATH-SOURCE", File: "larking/grpc.go",
		Old: "\tmethod := r.URL.Path\n", New: "\tmethod := r.RequestURI\n", Expect: "serveGRPC/method-name", Why: "gRPC method looked up by the un-stripped request URI"})
	control(&Control{ID: "poolforeign-alias-reply", Rule: "POOL-FOREIGN", File: "larking/http.go",
		Old: "b = append(b, pData.Bytes()...)", New: "b = pData.Bytes()", Expect: "SendMsg/returned-to-pool", Why: "the reply's own bytes are put into the pool"})
	control(&Control{ID: "closeonce-return-close", Rule: "CLOSE-ONCE", File: "larking/grpc.go",
		Old: "\tif _, err := w.Write(b); err != nil {\n\t\treturn err\n\t}\n\treturn nil\n}", New: "\tif _, err := w.Write(b); err != nil {\n\t\treturn err\n\t}\n\treturn w.Close()\n}", Expect: "compress/writer-closed-once", Why: "writer closed explicitly and again by the defer"})
	control(&Control{ID: "delrule-prune-always", Rule: "DELRULE-GUARD", File: "larking/rules.go",
		Old:    "\t\tif ok := s.delRule(name); ok {\n\t\t\tdeleted = true\n\t\t\tif !s.alive() {\n\t\t\t\tdelete(p.segments, k)\n\t\t\t}\n\t\t}",
		New:    "\t\tif ok := s.delRule(name); ok {\n\t\t\tdeleted = true\n\t\t}\n\t\tif !s.alive() {\n\t\t\tdelete(p.segments, k)\n\t\t}",
		Expect: "prune:path.segments", Why: "dead-looking siblings pruned while walking past them"})
	control(&Control{ID: "binpadding-trimsuffix", Rule: "BIN-PADDING", File: "larking/grpc.go",
		Old: "b, err = base64.StdEncoding.DecodeString(v)", New: "b, err = base64.RawStdEncoding.DecodeString(strings.TrimSuffix(v, \"=\"))", Expect: "padded-and-unpadded", Why: "only one '=' of the padding is stripped"})
	control(&Control{ID: "timeoutclamp-after-multiply", Rule: "TIMEOUT-CLAMP", File: "larking/grpc.go",
		Old: "\tif d == time.Hour && t > maxHours {", New: "\tif d == time.Hour && d*time.Duration(t) < 0 {", Expect: "overflow-guard", Why: "overflow tested after the multiplication"})
	control(&Control{ID: "statspayload-skip-empty", Rule: "STATS-PAYLOAD-EACH", File: "larking/grpc.go",
		Old:    "\tif stats := s.opts.statsHandler; stats != nil {\n\t\t// TODO: raw payload stats.\n\t\tb := b[headerLen:] // shadow",
		New:    "\tif stats := s.opts.statsHandler; stats != nil && len(b) > headerLen {\n\t\t// TODO: raw payload stats.\n\t\tb := b[headerLen:] // shadow",
		Expect: "SendMsg/OutPayload-on-every-success", Why: "no out-payload event for an empty reply"})
	control(&Control{ID: "selinsert-early-wildcard", Rule: "SEL-INSERT", File: "larking/mux.go",
		Old: "\t\t\t\trs := r.path[tag]\n", New: "\t\t\t\tif name == \"*\" {\n\t\t\t\t\tr.rules = append(r.rules, rule)\n\t\t\t\t\treturn\n\t\t\t\t}\n\t\t\t\trs := r.path[tag]\n", Expect: "rule-stored", Why: "pkg.Svc.* stored on node pkg"})
	control(&Control{ID: "codeclookup-request-default", Rule: "CODEC-LOOKUP-TOTAL", File: "larking/http.go",
		Old: "accept := negotiateContentType(r.Header, m.opts.contentTypeOffers, \"application/json\")", New: "accept := negotiateContentType(r.Header, m.opts.contentTypeOffers, r.Header.Get(\"Content-Type\"))", Expect: "encError/unchecked-lookup", Why: "error codec looked up under the request's own content type"})
}

func init() {
	control(&Control{ID: "sepcheck-restore-d40", Rule: "SEP-CHECK", File: "larking/rules.go",
		Old: "\tif toks[0].typ != tokenSlash {\n\t\treturn nil, nil, errNotFound\n\t}\n", New: "", Expect: "variables-only-after-slash", Why: "restore D40: ':' accepted where the template has '/'"})
}
