package main

// Controls for the rules added or strengthened after the first round of seeded changes.
func init() {
	control(&Control{ID: "escapeset-del", Rule: "ESCAPE-SET", File: "larking/grpc.go",
		Old: "if c < ' ' || c > '~' || c == '%' {", New: "if c < ' ' || c > 0x7f || c == '%' {", Expect: "escape-set", Why: "DEL (0x7f) written raw into grpc-message"})
	control(&Control{ID: "fwderrprompt-wait-first", Rule: "FWD-ERR-PROMPT", File: "larking/mux.go",
		Old: "\t\t\tif isStreamError(outErr) {\n\t\t\t\treturn outErr\n\t\t\t}\n\t\t\tif sd.ClientStreams {\n\t\t\t\twg.Wait()\n",
		New: "\t\t\tif sd.ClientStreams {\n\t\t\t\twg.Wait()\n\t\t\t}\n\t\t\tif isStreamError(outErr) {\n\t\t\t\treturn outErr\n\t\t\t}\n\t\t\tif sd.ClientStreams {\n",
		Expect: "backend-error-before-join", Why: "the pump is joined before the backend's error is returned"})
	control(&Control{ID: "slicecap-no-guard", Rule: "SLICE-CAP", File: "larking/grpc.go",
		Old: "\tif cap(b) < 5 {\n\t\tb = make([]byte, 0, growcap(cap(b), 5))\n\t}\n\tb = b[:5] // 1 byte compression flag, 4 bytes message length\n\n\tif _, err := io.ReadFull(s.r, b); err != nil {",
		New: "\tb = b[:5] // 1 byte compression flag, 4 bytes message length\n\n\tif _, err := io.ReadFull(s.r, b); err != nil {",
		Expect: "RecvMsg/reslice", Why: "pooled buffer re-sliced to the header length without a capacity guard"})
	control(&Control{ID: "readfulleof-restore", Rule: "READFULL-EOF", File: "larking/grpc.go",
		Old: "\t\tif err == io.EOF {\n\t\t\t// The stream ended after the frame header.\n\t\t\terr = io.ErrUnexpectedEOF\n\t\t}\n", New: "",
		Expect: "RecvMsg/ReadFull-mid-message", Why: "restore D37: frame cut after its header is a clean EOF"})
	control(&Control{ID: "timeoutdigits-base0", Rule: "TIMEOUT-DIGITS", File: "larking/grpc.go",
		Old: "strconv.ParseUint(s[:size-1], 10, 63)", New: "strconv.ParseUint(s[:size-1], 0, 63)", Expect: "decodeTimeout/base", Why: "radix inferred from a prefix"})
	control(&Control{ID: "timeoutdigits-signed", Rule: "TIMEOUT-DIGITS", File: "larking/grpc.go",
		Old: "\tt, err := strconv.ParseUint(s[:size-1], 10, 63)\n\tif err != nil {\n\t\treturn 0, err\n\t}\n\tconst maxHours = math.MaxInt64 / uint64(time.Hour)",
		New: "\tt, err := strconv.ParseInt(s[:size-1], 10, 64)\n\tif err != nil {\n\t\treturn 0, err\n\t}\n\tconst maxHours = math.MaxInt64 / int64(time.Hour)",
		Expect: "decodeTimeout/unsigned", Why: "restore D38: signed timeouts accepted"})
	control(&Control{ID: "storedslice-reuse", Rule: "STORED-SLICE-REUSE", File: "larking/mux.go",
		Old: "\tfor _, hd := range cl.handlers {\n\t\tname := hd.method\n\n\t\tvar hds []*handler\n",
		New: "\tvar hds []*handler\n\tfor _, hd := range cl.handlers {\n\t\tname := hd.method\n\n\t\thds = hds[:0]\n",
		Expect: "removeHandler/stored", Why: "one scratch slice reused for every method's surviving handlers"})
	control(&Control{ID: "cow5-inplace-filter", Rule: "COW-5", File: "larking/mux.go",
		Old: "\t\tvar hds []*handler\n", New: "\t\thds := s.handlers[name][:0]\n",
		Expect: "state).clone/shares:state.handlers[]", Why: "removeHandler filters the shared per-method slice in place"})
	control(&Control{ID: "cow5-bulk-copy", Rule: "COW-5", File: "larking/rules.go",
		Old: "\tfor i, v := range p.variables {\n\t\tpc.variables[i] = &variable{\n\t\t\tname: v.name, // RO\n\t\t\ttoks: v.toks, // RO\n\t\t\tnext: v.next.clone(),\n\t\t}\n\t}",
		New: "\tcopy(pc.variables, p.variables)",
		Expect: "bulk-copy", Why: "path.clone copies the variable pointers (shares every subtree below a variable)"})
	control(&Control{ID: "webtrailer-trim-first", Rule: "WEB-TRAILER-FRAME", File: "larking/web.go",
		Old: "\t\tif w.seenHeaders[key] {\n\t\t\tcontinue\n\t\t}\n\t\tkey = strings.TrimPrefix(key, http.TrailerPrefix)\n",
		New: "\t\tkey = strings.TrimPrefix(key, http.TrailerPrefix)\n\t\tif w.seenHeaders[key] {\n\t\t\tcontinue\n\t\t}\n",
		Expect: "seen-test-on-raw-key", Why: "a trailer named like a sent header is dropped from the gRPC-web frame"})
	control(&Control{ID: "nilable-comp", Rule: "NILABLE-FIELD", File: "larking/grpc.go",
		Old: "\t\tif s.comp != nil {\n\t\t\tout.Compression = s.comp.Name()", New: "\t\tif s.messageEncoding != \"\" {\n\t\t\tout.Compression = s.comp.Name()",
		Expect: "SendHeader/invoke:streamGRPC.comp", Why: "nil 'identity' compressor invoked in the stats block"})
	control(&Control{ID: "selcollect-deepest-only", Rule: "SEL-COLLECT", File: "larking/mux.go",
		Old: "return append(rules, r.getRules(name)...)", New: "return r.getRules(name)", Expect: "collects-every-level", Why: "only the deepest selector node's rules are returned"})
	control(&Control{ID: "lastwriter-skip-default", Rule: "LAST-WRITER", File: "larking/rules.go",
		Old: "\t\t\t\tdefault:\n\t\t\t\t\tcur.Set(fd, p.val)\n",
		New: "\t\t\t\tdefault:\n\t\t\t\t\tif !fd.HasPresence() && p.val.Equal(fd.Default()) {\n\t\t\t\t\t\tbreak\n\t\t\t\t\t}\n\t\t\t\t\tcur.Set(fd, p.val)\n",
		Expect: "set-on-every-path", Why: "a zero-valued path capture does not overwrite the query/body value"})
}

func init() {
	control(&Control{ID: "fdlocal-direct", Rule: "FD-LOCAL", File: "larking/rules.go",
		Old: "\t\t\tfd = fieldOf(cur, fd)\n", New: "", Expect: "(params).set/", Why: "restore D39: stored descriptors applied directly to the picked handler's message"})
	control(&Control{ID: "slicecap-var-bound", Rule: "SLICE-CAP", File: "larking/codec.go",
		Old: "\t\tif cap(b) < n {\n\t\t\tdst := make([]byte, len(b), growcap(cap(b), n))", New: "\t\tif cap(b) < n-1 {\n\t\t\tdst := make([]byte, len(b), growcap(cap(b), n-1))", Expect: "ReadNext/extend", Why: "capacity established for another bound than the one sliced to"})
}
