package main

import (
	"go/constant"
	"go/token"
	"go/types"

	"golang.org/x/tools/go/ssa"
)

// Package-level constant tables: an array or map variable whose initialiser is a composite literal of constants
// and that nothing writes afterwards is, for the analyses, the same thing as the switch it could be written as.

type constTable struct {
	isMap   bool
	length  int64                     // arrays
	byInt   map[int64]constant.Value  // arrays, integer-keyed maps
	byStr   map[string]constant.Value // string-keyed maps
	mutated bool
}

func (p *Program) constTableOf(g *ssa.Global) *constTable {
	if p.tables == nil {
		p.tables = map[*ssa.Global]*constTable{}
	}
	if t, ok := p.tables[g]; ok {
		return t
	}
	p.tables[g] = nil
	if g.Pkg == nil {
		return nil
	}
	init := g.Pkg.Func("init")
	if init == nil {
		return nil
	}
	elem := g.Type().(*types.Pointer).Elem().Underlying()
	t := &constTable{byInt: map[int64]constant.Value{}, byStr: map[string]constant.Value{}}
	switch e := elem.(type) {
	case *types.Array:
		t.length = e.Len()
	case *types.Map:
		t.isMap = true
	default:
		return nil
	}
	ok := true
	var mapVal ssa.Value
	for _, fn := range append([]*ssa.Function{init}, init.AnonFuncs...) {
		eachInstr(fn, func(in ssa.Instruction) {
			switch x := in.(type) {
			case *ssa.Store:
				if ia, isIA := x.Addr.(*ssa.IndexAddr); isIA && ia.X == ssa.Value(g) {
					k, kc := constInt(ia.Index)
					c, vc := x.Val.(*ssa.Const)
					if !kc || !vc || c.Value == nil {
						ok = false
						return
					}
					t.byInt[k] = c.Value
				}
				if x.Addr == ssa.Value(g) && t.isMap {
					mapVal = x.Val
				}
			}
		})
	}
	if t.isMap {
		if mapVal == nil {
			return nil
		}
		if _, isMake := mapVal.(*ssa.MakeMap); !isMake {
			return nil
		}
		for _, ref := range *mapVal.Referrers() {
			mu, isMU := ref.(*ssa.MapUpdate)
			if !isMU {
				continue
			}
			c, vc := mu.Value.(*ssa.Const)
			kc, isKC := mu.Key.(*ssa.Const)
			if !vc || !isKC || c.Value == nil || kc.Value == nil {
				ok = false
				continue
			}
			switch kc.Value.Kind() {
			case constant.String:
				t.byStr[constant.StringVal(kc.Value)] = c.Value
			case constant.Int:
				if k, exact := constant.Int64Val(kc.Value); exact {
					t.byInt[k] = c.Value
				}
			default:
				ok = false
			}
		}
	}
	if !ok {
		return nil
	}
	// written anywhere else in the module?
	for _, fn := range p.ModuleFuncs() {
		if fn == init || fn.Parent() == init {
			continue
		}
		eachInstr(fn, func(in ssa.Instruction) {
			switch x := in.(type) {
			case *ssa.Store:
				if x.Addr == ssa.Value(g) {
					t.mutated = true
				}
				if ia, isIA := x.Addr.(*ssa.IndexAddr); isIA && ia.X == ssa.Value(g) {
					t.mutated = true
				}
			case *ssa.MapUpdate:
				if u, isU := x.Map.(*ssa.UnOp); isU && u.Op == token.MUL && u.X == ssa.Value(g) {
					t.mutated = true
				}
			}
		})
	}
	if t.mutated {
		return nil
	}
	p.tables[g] = t
	return t
}

// tableLoad: v is a read `g[idx]` of a package-level constant table; returns the table and the index value.
func (p *Program) tableLoad(v ssa.Value) (*constTable, ssa.Value) {
	switch x := v.(type) {
	case *ssa.UnOp:
		if x.Op != token.MUL {
			return nil, nil
		}
		if ia, ok := x.X.(*ssa.IndexAddr); ok {
			if g, ok := ia.X.(*ssa.Global); ok {
				if t := p.constTableOf(g); t != nil && !t.isMap {
					return t, ia.Index
				}
			}
		}
	case *ssa.Lookup:
		if u, ok := x.X.(*ssa.UnOp); ok && u.Op == token.MUL && !x.CommaOk {
			if g, ok := u.X.(*ssa.Global); ok {
				if t := p.constTableOf(g); t != nil && t.isMap {
					return t, x.Index
				}
			}
		}
	}
	return nil, nil
}

func constToInt(c constant.Value) (int64, bool) {
	switch c.Kind() {
	case constant.Bool:
		if constant.BoolVal(c) {
			return 1, true
		}
		return 0, true
	case constant.Int:
		return constant.Int64Val(c)
	}
	return 0, false
}
