package main

import (
	"fmt"
	"go/ast"
	"go/constant"
	"go/token"
	"go/types"
	"sort"
	"strings"

	"golang.org/x/tools/go/packages"
	"golang.org/x/tools/go/ssa"
)

// ---------------------------------------------------------------------------
// AST helpers
// ---------------------------------------------------------------------------

// globalInit returns the initialiser expression of package-level variable name in pk.
func globalInit(pk *packages.Package, name string) ast.Expr {
	for _, f := range pk.Syntax {
		for _, d := range f.Decls {
			gd, ok := d.(*ast.GenDecl)
			if !ok || gd.Tok != token.VAR {
				continue
			}
			for _, sp := range gd.Specs {
				vs := sp.(*ast.ValueSpec)
				for i, id := range vs.Names {
					if id.Name == name && i < len(vs.Values) {
						return vs.Values[i]
					}
				}
			}
		}
	}
	return nil
}

func constOf(pk *packages.Package, e ast.Expr) constant.Value {
	if tv, ok := pk.TypesInfo.Types[e]; ok {
		return tv.Value
	}
	return nil
}

// arrayLiteralInts evaluates an array/slice composite literal of constants
// (supports keyed elements) into index -> value.
func literalConsts(pk *packages.Package, e ast.Expr) (map[int64]constant.Value, bool) {
	cl, ok := ast.Unparen(e).(*ast.CompositeLit)
	if !ok {
		return nil, false
	}
	out := map[int64]constant.Value{}
	var idx int64
	for _, el := range cl.Elts {
		val := el
		if kv, ok := el.(*ast.KeyValueExpr); ok {
			k := constOf(pk, kv.Key)
			if k == nil || k.Kind() != constant.Int {
				return nil, false
			}
			idx, _ = constant.Int64Val(k)
			val = kv.Value
		}
		c := constOf(pk, val)
		if c == nil {
			return nil, false
		}
		out[idx] = c
		idx++
	}
	return out, true
}

// mapLiteralConsts evaluates a map composite literal with constant keys and values.
func mapLiteralConsts(pk *packages.Package, e ast.Expr) (map[string]constant.Value, bool) {
	cl, ok := ast.Unparen(e).(*ast.CompositeLit)
	if !ok {
		return nil, false
	}
	out := map[string]constant.Value{}
	for _, el := range cl.Elts {
		kv, ok := el.(*ast.KeyValueExpr)
		if !ok {
			return nil, false
		}
		k, v := constOf(pk, kv.Key), constOf(pk, kv.Value)
		if k == nil || v == nil {
			return nil, false
		}
		out[k.ExactString()] = v
	}
	return out, true
}

// ---------------------------------------------------------------------------
// STATUS-TABLE
// ---------------------------------------------------------------------------

// google.rpc.Code -> HTTP status as documented in google/rpc/code.proto.
// Entry 1 (CANCELLED) documents 499; 408 is the older grpc-gateway value and is accepted.
var specHTTPStatus = [17][]int64{
	{200}, {499, 408}, {500}, {400}, {504}, {404}, {409}, {403}, {429}, {400}, {409}, {400}, {501}, {500}, {503}, {500}, {401},
}

var codeNames = [17]string{"OK", "CANCELLED", "UNKNOWN", "INVALID_ARGUMENT", "DEADLINE_EXCEEDED", "NOT_FOUND", "ALREADY_EXISTS",
	"PERMISSION_DENIED", "RESOURCE_EXHAUSTED", "FAILED_PRECONDITION", "ABORTED", "OUT_OF_RANGE", "UNIMPLEMENTED", "INTERNAL",
	"UNAVAILABLE", "DATA_LOSS", "UNAUTHENTICATED"}

func init() {
	register(&Rule{
		Name: "STATUS-TABLE", Floor: 18,
		Doc: "codeToHTTPStatus, evaluated as constants, has one entry per google.rpc.Code 0..16 equal to the documented HTTP mapping; codeToWSStatus has 17 entries, 0 maps to normal closure and no error code does",
		Run: ruleStatusTable,
	})
	register(&Rule{
		Name: "TABLE-GUARD", Floor: 2,
		Doc: "every non-constant index into a package-level fixed-size array is dominated by a guard that, evaluated numerically, bounds the index within [0,len)",
		Run: ruleTableGuard,
	})
	register(&Rule{
		Name: "TWIRP-TABLE", Floor: 16,
		Doc: "the value stored in twirpError.Code, computed from the constant table it is looked up in, equals the Twirp specification's error name for every code 1..16",
		Run: ruleTwirpTable,
	})
	register(&Rule{
		Name: "UNIT-TABLE", Floor: 8,
		Doc: "timeoutUnit maps exactly H,M,S,m,u,n to 3600e9,60e9,1e9,1e6,1e3,1 ns and everything else to 0; decodeTimeout's length bounds are 2..9",
		Run: ruleUnitTable,
	})
}

func ruleStatusTable(r *Run) {
	pk := r.P.Lark
	init := globalInit(pk, "codeToHTTPStatus")
	if init == nil {
		r.missing("var codeToHTTPStatus")
	} else {
		vals, ok := literalConsts(pk, init)
		if !ok {
			r.undecided("codeToHTTPStatus", init.Pos(), "initialiser is not a literal of constants")
		} else {
			r.check(len(vals) == 17, "codeToHTTPStatus/len", init.Pos(),
				"17 entries (codes 0..16)", fmt.Sprintf("table has %d entries, google.rpc.Code has 17 (0..16)", len(vals)))
			for i := int64(0); i < 17; i++ {
				c, ok := vals[i]
				key := fmt.Sprintf("codeToHTTPStatus[%d %s]", i, codeNames[i])
				if !ok {
					r.bad(key, init.Pos(), "no entry")
					continue
				}
				got, _ := constant.Int64Val(c)
				good := false
				for _, w := range specHTTPStatus[i] {
					if w == got {
						good = true
					}
				}
				r.check(good, key, init.Pos(), fmt.Sprintf("= %d as documented", got),
					fmt.Sprintf("= %d, documented mapping is %v", got, specHTTPStatus[i]))
			}
		}
	}
	ws := globalInit(pk, "codeToWSStatus")
	if ws == nil {
		r.missing("var codeToWSStatus")
		return
	}
	vals, ok := literalConsts(pk, ws)
	if !ok {
		r.undecided("codeToWSStatus", ws.Pos(), "initialiser is not a literal of constants")
		return
	}
	r.check(len(vals) == 17, "codeToWSStatus/len", ws.Pos(), "17 entries", fmt.Sprintf("table has %d entries, want 17", len(vals)))
	if c0, ok := vals[0]; ok {
		v0, _ := constant.Int64Val(c0)
		r.check(v0 == 1000, "codeToWSStatus[0 OK]", ws.Pos(), "OK closes with 1000 (normal closure)", fmt.Sprintf("OK closes with %d, want 1000", v0))
		for i := int64(1); i < 17; i++ {
			if c, ok := vals[i]; ok {
				v, _ := constant.Int64Val(c)
				if v == 1000 {
					r.bad(fmt.Sprintf("codeToWSStatus[%d %s]", i, codeNames[i]), ws.Pos(), "an error code closes with 1000 (normal closure): the client cannot tell failure from success")
				}
			}
		}
	}
}

// ---------------------------------------------------------------------------
// TABLE-GUARD
// ---------------------------------------------------------------------------

type bound struct {
	hasUpper bool
	upper    int64 // index < upper
	hasLower bool  // index >= 0 established
}

func (p *Program) sizes() types.Sizes {
	return types.SizesFor("gc", p.Config.GOARCH)
}

// valuePreserving: converting from -> to cannot change the numeric value.
func (p *Program) valuePreserving(from, to types.Type) bool {
	fb, ok1 := from.Underlying().(*types.Basic)
	tb, ok2 := to.Underlying().(*types.Basic)
	if !ok1 || !ok2 || fb.Info()&types.IsInteger == 0 || tb.Info()&types.IsInteger == 0 {
		return false
	}
	sz := p.sizes()
	fs, ts := sz.Sizeof(fb), sz.Sizeof(tb)
	fu, tu := fb.Info()&types.IsUnsigned != 0, tb.Info()&types.IsUnsigned != 0
	switch {
	case fu == tu:
		return ts >= fs
	case fu && !tu:
		return ts > fs
	default: // signed -> unsigned
		return false
	}
}

// stripConv looks through value-preserving integer conversions.
func (p *Program) stripConv(v ssa.Value) ssa.Value {
	for {
		switch x := v.(type) {
		case *ssa.Convert:
			if p.valuePreserving(x.X.Type(), x.Type()) {
				v = x.X
				continue
			}
		case *ssa.ChangeType:
			v = x.X
			continue
		}
		return v
	}
}

func isUnsignedInt(t types.Type) bool {
	b, ok := t.Underlying().(*types.Basic)
	return ok && b.Info()&types.IsUnsigned != 0
}

// sameValue: a and b denote the same runtime value (same SSA value modulo
// value-preserving conversions, or loads of the same non-escaping cell /
// same parameter).
func (p *Program) sameValue(a, b ssa.Value) bool {
	a, b = p.stripConv(a), p.stripConv(b)
	if a == b {
		return true
	}
	// two loads of the same local cell without intervening stores are common
	// (`c` spilled because of a closure); accept loads of the same single-store cell.
	ua, ok1 := a.(*ssa.UnOp)
	ub, ok2 := b.(*ssa.UnOp)
	if ok1 && ok2 && ua.Op == token.MUL && ub.Op == token.MUL {
		ra, rb := p.cellRoot(ua.X), p.cellRoot(ub.X)
		if al, ok := ra.(*ssa.Alloc); ok && ra == rb && len(p.cellStores(al)) <= 1 {
			return true
		}
	}
	return false
}

// boundsFromGuards derives numeric bounds on idx at block `at` from the
// comparisons whose outcome is implied there (edge dominance).
func (p *Program) boundsFromGuards(idx ssa.Value, at *ssa.BasicBlock) (bound, []string) {
	var bd bound
	var used []string
	if isUnsignedInt(p.stripConv(idx).Type()) {
		bd.hasLower = true
	}
	for _, g := range guardsOf(at) {
		bo, ok := g.Cond.(*ssa.BinOp)
		if !ok {
			continue
		}
		op := bo.Op
		var k int64
		var kok bool
		var x ssa.Value
		if k, kok = constInt(bo.Y); kok {
			x = bo.X
		} else if k, kok = constInt(bo.X); kok {
			x = bo.Y
			// mirror: K op x  ==  x op' K
			switch op {
			case token.LSS:
				op = token.GTR
			case token.LEQ:
				op = token.GEQ
			case token.GTR:
				op = token.LSS
			case token.GEQ:
				op = token.LEQ
			}
		} else {
			continue
		}
		if !p.sameValue(x, idx) {
			continue
		}
		if !g.True { // negate
			switch op {
			case token.LSS:
				op = token.GEQ
			case token.LEQ:
				op = token.GTR
			case token.GTR:
				op = token.LEQ
			case token.GEQ:
				op = token.LSS
			case token.EQL:
				op = token.NEQ
			case token.NEQ:
				op = token.EQL
			}
		}
		switch op {
		case token.LSS: // x < k
			if !bd.hasUpper || k < bd.upper {
				bd.hasUpper, bd.upper = true, k
			}
			used = append(used, fmt.Sprintf("idx < %d (%s)", k, p.Pos(bo.Pos())))
		case token.LEQ: // x <= k
			if !bd.hasUpper || k+1 < bd.upper {
				bd.hasUpper, bd.upper = true, k+1
			}
			used = append(used, fmt.Sprintf("idx <= %d (%s)", k, p.Pos(bo.Pos())))
		case token.GEQ:
			if k >= 0 {
				bd.hasLower = true
			}
		case token.GTR:
			if k >= -1 {
				bd.hasLower = true
			}
		case token.EQL:
			if k >= 0 {
				bd.hasLower = true
			}
			if !bd.hasUpper || k+1 < bd.upper {
				bd.hasUpper, bd.upper = true, k+1
			}
		}
	}
	return bd, used
}

func ruleTableGuard(r *Run) {
	p := r.P
	n := 0
	for _, fn := range p.ModuleFuncs() {
		eachInstr(fn, func(in ssa.Instruction) {
			ia, ok := in.(*ssa.IndexAddr)
			if !ok {
				return
			}
			g, ok := ia.X.(*ssa.Global)
			if !ok {
				return
			}
			arr, ok := g.Type().(*types.Pointer).Elem().Underlying().(*types.Array)
			if !ok {
				return
			}
			if _, isConst := constInt(ia.Index); isConst {
				return
			}
			n++
			key := fmt.Sprintf("%s/index:%s", shortFunc(fn), g.Name())
			L := arr.Len()
			idxT := p.stripConv(ia.Index).Type()
			// a full-range table needs no guard (byte index into [256]T)
			if b, ok := idxT.Underlying().(*types.Basic); ok && b.Info()&types.IsUnsigned != 0 {
				bits := p.sizes().Sizeof(b) * 8
				if bits < 63 && (int64(1)<<uint(bits)) <= L {
					r.ok(key, ia.Pos(), "index type %s cannot exceed the table length %d", typeString(idxT), L)
					return
				}
			}
			// induction variable of a `for c := 0; c < K; c++` loop: bounded by the loop condition
			bd, used := p.boundsFromGuards(ia.Index, ia.Block())
			if phi, ok := p.stripConv(ia.Index).(*ssa.Phi); ok && !bd.hasLower {
				// loop counter starting at a non-negative constant and only incremented
				nonneg := true
				for _, e := range phi.Edges {
					if k, ok := constInt(e); ok && k >= 0 {
						continue
					}
					if bo, ok := e.(*ssa.BinOp); ok && bo.Op == token.ADD && bo.X == ssa.Value(phi) {
						if k, ok := constInt(bo.Y); ok && k >= 0 {
							continue
						}
					}
					nonneg = false
				}
				bd.hasLower = nonneg
			}
			// rotated loops (`for c := range 256`): the counter phi is bounded edge by edge - its initial constant,
			// and counter+1 tested `< K` on the latch edge that re-enters the body
			if phi, ok := p.stripConv(ia.Index).(*ssa.Phi); ok && !bd.hasUpper {
				if up, ok := phiUpperBound(phi); ok {
					bd.hasUpper, bd.upper = true, up
					used = append(used, fmt.Sprintf("loop counter < %d on every edge into the loop body", up))
				}
			}
			switch {
			case !bd.hasUpper:
				r.bad(key, ia.Pos(), "index into %s (len %d) is not dominated by any upper-bound guard on the index", g.Name(), L)
			case bd.upper > L:
				r.bad(key, ia.Pos(), "guard %v admits index %d but %s has only %d entries (valid indices 0..%d): off-by-one table guard",
					used, bd.upper-1, g.Name(), L, L-1)
			case !bd.hasLower:
				r.bad(key, ia.Pos(), "index into %s is signed and no guard excludes negative values", g.Name())
			default:
				r.ok(key, ia.Pos(), "index bounded to [0,%d) by %v; table length %d", bd.upper, used, L)
			}
		})
	}
	_ = n
}

// phiUpperBound: an exclusive upper bound of a loop-counter phi established on each of its incoming edges
// (a constant, or a value tested `< K` / `<= K` by the branch that takes this edge).
func phiUpperBound(phi *ssa.Phi) (int64, bool) {
	var up int64
	for i, e := range phi.Edges {
		if k, ok := constInt(e); ok {
			if k+1 > up {
				up = k + 1
			}
			continue
		}
		pred := phi.Block().Preds[i]
		ifi := blockIf(pred)
		if ifi == nil || pred.Succs[0] == pred.Succs[1] {
			return 0, false
		}
		g := guardFact{Cond: ifi.Cond, True: pred.Succs[0] == phi.Block(), If: ifi}
		x, y, op, ok := g.cmp()
		if !ok || x != e {
			return 0, false
		}
		k, isC := constInt(y)
		if !isC {
			return 0, false
		}
		switch op {
		case token.LSS:
		case token.LEQ:
			k++
		default:
			return 0, false
		}
		if k > up {
			up = k
		}
	}
	return up, len(phi.Edges) > 0
}

// ---------------------------------------------------------------------------
// TWIRP-TABLE
// ---------------------------------------------------------------------------

// Twirp error names (twitchtv.github.io/twirp/docs/spec_v7.html#error-codes) by gRPC code.
var specTwirp = [17]string{"", "canceled", "unknown", "invalid_argument", "deadline_exceeded", "not_found", "already_exists",
	"permission_denied", "resource_exhausted", "failed_precondition", "aborted", "out_of_range", "unimplemented", "internal",
	"unavailable", "dataloss", "unauthenticated"}

func ruleTwirpTable(r *Run) {
	p := r.P
	fld := p.StructField("twirpError", "Code")
	if fld == nil {
		r.missing("field twirpError.Code")
		return
	}
	found := false
	for _, fn := range p.ModuleFuncs() {
		eachInstr(fn, func(in ssa.Instruction) {
			st, ok := in.(*ssa.Store)
			if !ok {
				return
			}
			fa, ok := st.Addr.(*ssa.FieldAddr)
			if !ok || fieldOfAddr(fa) != fld {
				return
			}
			found = true
			image, how, err := p.evalCodeTable(st.Val)
			key := shortFunc(fn) + "/twirpError.Code"
			if err != nil {
				r.undecided(key, st.Pos(), "cannot evaluate the expression stored in twirpError.Code as a constant table lookup: %v", err)
				return
			}
			for c := 1; c <= 16; c++ {
				got, ok := image[int64(c)]
				k := fmt.Sprintf("%s[%d %s]", key, c, codeNames[c])
				if !ok {
					r.bad(k, st.Pos(), "no table entry for code %d (%s)", c, how)
					continue
				}
				r.check(got == specTwirp[c], k, st.Pos(), fmt.Sprintf("%q as in the Twirp spec (%s)", got, how),
					fmt.Sprintf("yields %q, the Twirp spec name is %q (%s)", got, specTwirp[c], how))
			}
		})
	}
	if !found {
		r.missing("store to twirpError.Code")
	}
}

// evalCodeTable evaluates v = [strings.ToLower|ToUpper](T[code]) for a constant table T (map or array, in any loaded package) into code -> string.
func (p *Program) evalCodeTable(v ssa.Value) (map[int64]string, string, error) {
	return p.evalCodeTableCtx(v, nil, 0)
}

// evalCodeTableCtx: ctx is the chain of helper calls entered so far, so that a table handed down as an argument
// (lookupCode(codeToTwirp[:], c, "unknown")) resolves to the table of this very call chain.
func (p *Program) evalCodeTableCtx(v ssa.Value, ctx *originCtx, depth int) (map[int64]string, string, error) {
	if depth > 5 {
		return nil, "", fmt.Errorf("helper chain too deep at %s", v.Name())
	}
	isConstHere := func(x ssa.Value) bool {
		os := p.originsCtx(x, ctx, originOpts{})
		if len(os) == 0 {
			return false
		}
		for _, o := range os {
			if _, ok := o.v.(*ssa.Const); !ok {
				return false
			}
		}
		return true
	}
	var post []string
	for {
		c, ok := v.(*ssa.Call)
		if !ok {
			break
		}
		n := calleeName(c)
		if n == "strings.ToLower" || n == "strings.ToUpper" {
			post = append(post, n)
			v = c.Call.Args[0]
			continue
		}
		// a module helper func(code) string consisting of one table lookup
		if fn := staticCallee(c); fn != nil && p.InModule(fn) && len(fn.Blocks) > 0 {
			var ret ssa.Value
			cnt := 0
			eachInstr(fn, func(in ssa.Instruction) {
				if rt, ok := in.(*ssa.Return); ok && len(rt.Results) == 1 {
					ret = rt.Results[0]
					cnt++
				}
			})
			if cnt >= 1 && ret != nil {
				// evaluate every return: accept if all returns but constant fallbacks evaluate
				img := map[int64]string{}
				how := ""
				var firstErr error
				inner := &originCtx{site: c, up: ctx}
				eachInstr(fn, func(in ssa.Instruction) {
					rt, ok := in.(*ssa.Return)
					if !ok || len(rt.Results) != 1 {
						return
					}
					if _, isConst := rt.Results[0].(*ssa.Const); isConst {
						return
					}
					if _, isPar := rt.Results[0].(*ssa.Parameter); isPar {
						// the fallback handed down by the caller (lookupCode(table, c, "unknown"))
						if os := p.originsCtx(rt.Results[0], inner, originOpts{}); len(os) > 0 {
							allConst := true
							for _, o := range os {
								if _, ok := o.v.(*ssa.Const); !ok {
									allConst = false
								}
							}
							if allConst {
								return
							}
						}
					}
					m, h, err := p.evalCodeTableCtx(rt.Results[0], inner, depth+1)
					if err != nil {
						firstErr = err
						return
					}
					how = h
					for k, s := range m {
						img[k] = s
					}
				})
				if firstErr != nil {
					return nil, "", firstErr
				}
				for _, f := range post {
					for k, s := range img {
						if f == "strings.ToLower" {
							img[k] = strings.ToLower(s)
						} else {
							img[k] = strings.ToUpper(s)
						}
					}
				}
				return img, "via " + shortFunc(fn) + ": " + how, nil
			}
		}
		break
	}
	// the table a lookup reads: a package-level variable, directly or handed down through helper parameters
	tableOf := func(x ssa.Value) *ssa.Global {
		var g *ssa.Global
		for _, o := range p.originsCtx(x, ctx, originOpts{throughSlice: true, throughConvert: true}) {
			var og *ssa.Global
			switch b := o.v.(type) {
			case *ssa.Global:
				og = b
			case *ssa.UnOp:
				og, _ = b.X.(*ssa.Global)
			}
			if og == nil || (g != nil && g != og) {
				return nil
			}
			g = og
		}
		return g
	}
	var g *ssa.Global
	switch x := v.(type) {
	case *ssa.Lookup:
		g = tableOf(x.X)
	case *ssa.UnOp:
		if x.Op == token.MUL {
			if ia, ok := x.X.(*ssa.IndexAddr); ok {
				g = tableOf(ia.X)
			}
		}
	case *ssa.Phi:
		// if/else selecting between lookups: union
		img := map[int64]string{}
		how := ""
		for _, e := range x.Edges {
			if isConstHere(e) {
				continue
			}
			m, h, err := p.evalCodeTableCtx(e, ctx, depth+1)
			if err != nil {
				return nil, "", err
			}
			how = h
			for k, s := range m {
				img[k] = s
			}
		}
		return img, how, nil
	}
	if g == nil {
		return nil, "", fmt.Errorf("value %s (%T) is not a lookup in a package-level table", v.Name(), v)
	}
	pk := p.ByPath[g.Pkg.Pkg.Path()]
	if pk == nil {
		return nil, "", fmt.Errorf("package of %s not loaded", g.Name())
	}
	init := globalInit(pk, g.Name())
	if init == nil {
		return nil, "", fmt.Errorf("no initialiser found for %s.%s", pk.PkgPath, g.Name())
	}
	img := map[int64]string{}
	if m, ok := mapLiteralConsts(pk, init); ok {
		for k, val := range m {
			kv := constant.MakeFromLiteral(k, token.INT, 0)
			if kv.Kind() != constant.Int || val.Kind() != constant.String {
				return nil, "", fmt.Errorf("table %s is not int->string", g.Name())
			}
			i, _ := constant.Int64Val(kv)
			img[i] = constant.StringVal(val)
		}
	} else if a, ok := literalConsts(pk, init); ok {
		for i, val := range a {
			if val.Kind() != constant.String {
				return nil, "", fmt.Errorf("table %s is not a string table", g.Name())
			}
			img[i] = constant.StringVal(val)
		}
	} else {
		return nil, "", fmt.Errorf("initialiser of %s is not a constant literal", g.Name())
	}
	for _, f := range post {
		for k, s := range img {
			if f == "strings.ToLower" {
				img[k] = strings.ToLower(s)
			} else {
				img[k] = strings.ToUpper(s)
			}
		}
	}
	how := "table " + g.Pkg.Pkg.Name() + "." + g.Name()
	if len(post) > 0 {
		how += " through " + strings.Join(post, ",")
	}
	return img, how, nil
}

// ---------------------------------------------------------------------------
// UNIT-TABLE
// ---------------------------------------------------------------------------

var specUnits = map[int64]int64{'H': 3600e9, 'M': 60e9, 'S': 1e9, 'm': 1e6, 'u': 1e3, 'n': 1}

// byteFuncTable evaluates a pure function of one byte for all 256 arguments (whether it is written as a switch, an
// if chain or a lookup in a package-level constant table) and returns it in the form of switchConstTable: the
// entries that differ from the most frequent value, and that value as the default. Falls back to reading the
// function's switch statement when the body cannot be evaluated.
func (p *Program) byteFuncTable(name string, fd *ast.FuncDecl) (map[int64]int64, int64, error) {
	fn := p.LarkSSA.Func(name)
	if fn != nil && len(fn.Params) == 1 {
		vals := make([]int64, 256)
		ok := true
		for c := int64(0); c < 256 && ok; c++ {
			vals[c], ok = interpPureP(p, fn, c, 0)
		}
		if ok {
			count := map[int64]int{}
			for _, v := range vals {
				count[v]++
			}
			def, best := int64(0), -1
			for v, n := range count {
				if n > best || (n == best && v < def) {
					def, best = v, n
				}
			}
			got := map[int64]int64{}
			for c, v := range vals {
				if v != def {
					got[int64(c)] = v
				}
			}
			return got, def, nil
		}
	}
	return switchConstTable(p.Lark, fd)
}

func ruleUnitTable(r *Run) {
	p := r.P
	fd := p.FuncDecl("", "timeoutUnit")
	if fd == nil {
		r.missing("func timeoutUnit")
	} else {
		got, def, err := p.byteFuncTable("timeoutUnit", fd)
		if err != nil {
			r.undecided("timeoutUnit", fd.Pos(), "cannot evaluate as a constant table: %v", err)
		} else {
			var keys []int64
			for k := range specUnits {
				keys = append(keys, k)
			}
			sort.Slice(keys, func(i, j int) bool { return keys[i] < keys[j] })
			for _, k := range keys {
				key := fmt.Sprintf("timeoutUnit[%q]", rune(k))
				v, ok := got[k]
				if !ok {
					r.bad(key, fd.Pos(), "unit %q has no case (falls to default %d)", rune(k), def)
					continue
				}
				r.check(v == specUnits[k], key, fd.Pos(), fmt.Sprintf("= %d ns", v), fmt.Sprintf("= %d ns, the gRPC spec says %d ns", v, specUnits[k]))
			}
			extra := 0
			for k, v := range got {
				if _, ok := specUnits[k]; !ok && v != 0 {
					extra++
					r.bad(fmt.Sprintf("timeoutUnit[%q]", rune(k)), fd.Pos(), "unit %q is not in the gRPC spec but maps to %d ns", rune(k), v)
				}
			}
			r.check(def == 0, "timeoutUnit[default]", fd.Pos(), "unknown units map to 0 (rejected by decodeTimeout)", fmt.Sprintf("unknown units map to %d, want 0 (rejected)", def))
		}
	}
	// length bounds in decodeTimeout: the error edges are size < 2 and size > 9.
	fn := p.Func("decodeTimeout")
	if fn == nil {
		r.missing("func decodeTimeout")
		return
	}
	var lo, hi *int64
	eachInstr(fn, func(in ssa.Instruction) {
		ifi, ok := in.(*ssa.If)
		if !ok {
			return
		}
		bo, ok := ifi.Cond.(*ssa.BinOp)
		if !ok {
			return
		}
		k, ok := constInt(bo.Y)
		if !ok {
			return
		}
		c, ok := bo.X.(*ssa.Call)
		if !ok || calleeName(c) != "builtin.len" {
			return
		}
		// true edge must return a non-nil error
		tb := ifi.Block().Succs[0]
		retErr := false
		for _, x := range tb.Instrs {
			if rt, ok := x.(*ssa.Return); ok && len(rt.Results) == 2 && !isNilConst(rt.Results[1]) {
				retErr = true
			}
		}
		if !retErr {
			return
		}
		kk := k
		switch bo.Op {
		case token.LSS: // len < k refused -> min = k
			lo = &kk
		case token.LEQ:
			kk = k + 1
			lo = &kk
		case token.GTR: // len > k refused -> max = k
			hi = &kk
		case token.GEQ:
			kk = k - 1
			hi = &kk
		}
	})
	if lo == nil || hi == nil {
		r.undecided("decodeTimeout/length-bounds", fn.Pos(), "could not find both length refusals (len < a, len > b) with error returns")
		return
	}
	r.check(*lo == 2 && *hi == 9, "decodeTimeout/length-bounds", fn.Pos(),
		"accepts lengths 2..9 (1-8 digits plus unit)", fmt.Sprintf("accepts lengths %d..%d, the gRPC spec allows 2..9 (1-8 digits plus unit)", *lo, *hi))
}

// switchConstTable evaluates `func f(x T) R { switch x { case c1: return k1 ... default: return kd } }`.
func switchConstTable(pk *packages.Package, fd *ast.FuncDecl) (map[int64]int64, int64, error) {
	var sw *ast.SwitchStmt
	for _, st := range fd.Body.List {
		if s, ok := st.(*ast.SwitchStmt); ok {
			sw = s
		}
	}
	if sw == nil {
		return nil, 0, fmt.Errorf("no switch statement")
	}
	out := map[int64]int64{}
	var def int64
	hasDef := false
	retConst := func(body []ast.Stmt) (int64, error) {
		if len(body) != 1 {
			return 0, fmt.Errorf("case body is not a single return")
		}
		rs, ok := body[0].(*ast.ReturnStmt)
		if !ok || len(rs.Results) != 1 {
			return 0, fmt.Errorf("case body is not a single return")
		}
		c := constOf(pk, rs.Results[0])
		if c == nil {
			return 0, fmt.Errorf("return value is not constant")
		}
		v, ok := constant.Int64Val(constant.ToInt(c))
		if !ok {
			return 0, fmt.Errorf("return value is not an integer constant")
		}
		return v, nil
	}
	for _, cc := range sw.Body.List {
		cl := cc.(*ast.CaseClause)
		v, err := retConst(cl.Body)
		if err != nil {
			return nil, 0, err
		}
		if cl.List == nil {
			def, hasDef = v, true
			continue
		}
		for _, e := range cl.List {
			c := constOf(pk, e)
			if c == nil {
				return nil, 0, fmt.Errorf("case label is not constant")
			}
			k, _ := constant.Int64Val(constant.ToInt(c))
			out[k] = v
		}
	}
	if !hasDef {
		// value after the switch
		last := fd.Body.List[len(fd.Body.List)-1]
		if rs, ok := last.(*ast.ReturnStmt); ok && len(rs.Results) == 1 {
			if c := constOf(pk, rs.Results[0]); c != nil {
				def, _ = constant.Int64Val(constant.ToInt(c))
				hasDef = true
			}
		}
	}
	if !hasDef {
		return nil, 0, fmt.Errorf("no default")
	}
	return out, def, nil
}
