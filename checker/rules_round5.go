package main

import (
	"fmt"
	"go/constant"
	"go/token"
	"go/types"
	"sort"
	"strings"

	"golang.org/x/tools/go/ssa"
)

// Rules added after the fifth round of seeded changes (DESIGN.md section 10.6).

func init() {
	register(&Rule{Name: "MATCH-SOURCE", Floor: 3,
		Doc: "the method a request is dispatched to comes from the trie walk made for this very request: every *method returned by state.match, path.match and path.search is nil, the result of the next function of that chain, an entry of a node's per-verb table or the node's any-verb slot (a value remembered from an earlier request - a cache keyed by less than path and verb - serves a binding this request does not match)",
		Run: ruleMatchSource})
}

func ruleMatchSource(r *Run) {
	p := r.P
	methodsF := p.StructField("path", "methods")
	chain := map[string]bool{nMatch: true, nPathMatch: true, nPathSearch: true}
	fns := []*ssa.Function{p.Method("state", "match"), p.Method("path", "match"), p.Method("path", "search")}
	for i, name := range []string{"(*state).match", "(*path).match", "(*path).search"} {
		fn := fns[i]
		if fn == nil {
			r.missing("method " + name)
			continue
		}
		// a memo of earlier results is as good as the walk when its key is made of this request's path and verb
		fullKey := func(key ssa.Value) bool {
			if key == nil || len(fn.Params) < 3 {
				return false
			}
			return p.derivedFromKey(key, fn.Params[1]) && p.derivedFromKey(key, fn.Params[2])
		}
		bad := ""
		var pos token.Pos = fn.Pos()
		n := 0
		p.eachInstrRegion(fn, func(g *ssa.Function, in ssa.Instruction) {
			rt, ok := in.(*ssa.Return)
			if !ok || g != fn || len(rt.Results) == 0 {
				return
			}
			for _, o := range p.origins(rt.Results[0], originOpts{throughAssert: true, throughConvert: true}) {
				n++
				switch x := o.(type) {
				case *ssa.Const:
					continue
				case *ssa.Call:
					if chain[calleeName(x)] {
						continue
					}
					bad = "the result of " + shortName(calleeName(x))
				case *ssa.Extract:
					if c, ok := x.Tuple.(*ssa.Call); ok {
						if chain[calleeName(c)] && x.Index == 0 {
							continue
						}
						if calleeName(c) == "(*sync.Map).Load" && len(c.Call.Args) == 2 && fullKey(c.Call.Args[1]) {
							continue
						}
						bad = "the result of " + shortName(calleeName(c))
						if calleeName(c) == "(*sync.Map).Load" {
							bad += " under a key that is not made of both the request's path and its verb"
						}
					} else if lk, ok := x.Tuple.(*ssa.Lookup); ok && x.Index == 0 && (p.lookupOfField(lk, methodsF) || fullKey(lk.Index)) {
						continue
					} else {
						bad = describeValue(o)
					}
				case *ssa.Lookup:
					if p.lookupOfField(x, methodsF) || fullKey(x.Index) {
						continue
					}
					bad = "a lookup in another table than path.methods, under a key that is not made of both the request's path and its verb"
				default:
					// the node's own "any verb" slot (path.methodAll): a field of the trie node reached by the walk
					if f := loadedField(o); f != nil && p.fieldOwner(f) == "path" {
						continue
					}
					bad = describeValue(o)
				}
				pos = rt.Pos()
			}
		})
		if n == 0 {
			r.undecided(name+"/method-source", fn.Pos(), "no returned method value found")
			continue
		}
		r.check(bad == "", name+"/method-source", pos, "the returned method is nil, the next matcher's result, or an entry of the reached node (per-verb table / any-verb slot)",
			fmt.Sprintf("%s can return %s as the matched method: it does not come from walking the trie with this request's path and verb, so a request can be dispatched to a binding it does not match", name, bad))
	}
}

// lookupOfField: lk indexes the map loaded from field f.
func (p *Program) lookupOfField(lk *ssa.Lookup, f *types.Var) bool {
	if f == nil {
		return false
	}
	for _, o := range p.origins(lk.X, originOpts{}) {
		if loadsField(o, f) {
			return true
		}
	}
	return false
}

func init() {
	register(&Rule{Name: "FD-LOCALISER", Floor: 1,
		Doc: "a function that maps a field descriptor of another registration onto a message's own descriptor (a function of one protoreflect.Message and one FieldDescriptor returning a FieldDescriptor) returns the descriptor it was given or the message's field found under a wire-stable identity of that descriptor (ByNumber(fd.Number()), ByName(fd.Name()), ...): a positional lookup (Fields().Get(fd.Index())) picks another field whenever a backend declares the same fields in another order, and the path value lands in the wrong field",
		Run: ruleFDLocaliser})
}

func ruleFDLocaliser(r *Run) {
	p := r.P
	isType := func(t types.Type, name string) bool {
		n := namedOf(t)
		return n != nil && n.Obj().Pkg() != nil && n.Obj().Pkg().Path() == protoreflect && n.Obj().Name() == name
	}
	localOnly := func(v ssa.Value, target *ssa.Parameter) bool {
		os := p.origins(v, originOpts{local: true})
		for _, o := range os {
			if o != ssa.Value(target) {
				return false
			}
		}
		return len(os) > 0
	}
	keyOf := map[string]string{"ByNumber": "Number", "ByName": "Name", "ByJSONName": "JSONName", "ByTextName": "TextName"}
	n := 0
	for _, fn := range p.ModuleFuncs() {
		sig := fn.Signature
		if fn.Parent() != nil || len(fn.Blocks) == 0 || sig.Recv() != nil || sig.Params().Len() != 2 || sig.Results().Len() != 1 {
			continue
		}
		if !isType(sig.Results().At(0).Type(), "FieldDescriptor") {
			continue
		}
		var m, fd *ssa.Parameter
		for _, par := range fn.Params {
			switch {
			case isType(par.Type(), "Message") && m == nil:
				m = par
			case isType(par.Type(), "FieldDescriptor") && fd == nil:
				fd = par
			}
		}
		if m == nil || fd == nil {
			continue
		}
		n++
		bad := ""
		var pos token.Pos = fn.Pos()
		eachInstr(fn, func(in ssa.Instruction) {
			rt, ok := in.(*ssa.Return)
			if !ok {
				return
			}
			for _, o := range p.origins(rt.Results[0], originOpts{local: true}) {
				switch x := o.(type) {
				case *ssa.Parameter:
					if x == fd {
						continue
					}
					bad = "parameter " + x.Name()
				case *ssa.Call:
					bn, isBN := isInvokeNamed(x, "ByNumber", "ByName", "ByJSONName", "ByTextName")
					if !isBN {
						if g, isGet := isInvokeNamed(x, "Get"); isGet {
							_ = g
							bad = "Fields().Get(i): the field at a declaration position"
						} else {
							bad = "the result of " + shortName(calleeName(x))
						}
						break
					}
					fromM := false
					for _, fo := range p.origins(bn.Common().Value, originOpts{local: true}) {
						if fc, isF := isInvokeNamed(fo, "Fields"); isF {
							for _, do := range p.origins(fc.Common().Value, originOpts{local: true}) {
								if dc, isD := isInvokeNamed(do, "Descriptor"); isD && localOnly(dc.Common().Value, m) {
									fromM = true
								}
							}
						}
					}
					if !fromM {
						bad = "a field looked up on another descriptor than the message's own"
						break
					}
					keyed := false
					if len(bn.Common().Args) == 1 {
						for _, ko := range p.origins(bn.Common().Args[0], originOpts{throughConvert: true, local: true}) {
							if kc, isK := isInvokeNamed(ko, keyOf[bn.Common().Method.Name()]); isK && localOnly(kc.Common().Value, fd) {
								keyed = true
							}
						}
					}
					if !keyed {
						bad = fmt.Sprintf("%s under a key that is not the given descriptor's own %s()", bn.Common().Method.Name(), keyOf[bn.Common().Method.Name()])
					}
				default:
					bad = describeValue(o)
				}
				if bad != "" {
					pos = rt.Pos()
				}
			}
		})
		r.check(bad == "", shortFunc(fn)+"/wire-stable-key", pos, "returns the given descriptor or the message's field with the same number/name",
			fmt.Sprintf("%s can return %s: a descriptor of another registration is mapped onto a different field of the message", shortFunc(fn), bad))
	}
	if n == 0 {
		r.undecided("localiser", token.NoPos, "no function (protoreflect.Message, FieldDescriptor) FieldDescriptor found in the module")
	}
}

func init() {
	register(&Rule{Name: "FWD-EOF-FILTERED", Floor: 2,
		Doc: "in the stream forwarder an error produced by a RecvMsg/SendMsg inside a pump loop (where io.EOF is the regular way out: the peer finished), or by any SendMsg on the backend stream (io.EOF: the backend already ended the call, RecvMsg has the status), is returned to the front client only under the end-of-stream filter - a predicate that answers false for io.EOF, or a direct != io.EOF test: returned under a bare != nil test, the io.EOF that grpc-go's SendMsg yields once the backend has completed becomes status Unknown 'EOF' for an RPC the backend answered with OK",
		Run: ruleFwdEOFFiltered})
}

// blockInLoop: b lies on a cycle of its function's control-flow graph.
func blockInLoop(b *ssa.BasicBlock) bool {
	seen := map[*ssa.BasicBlock]bool{}
	var stack []*ssa.BasicBlock
	stack = append(stack, b.Succs...)
	for len(stack) > 0 {
		x := stack[len(stack)-1]
		stack = stack[:len(stack)-1]
		if x == b {
			return true
		}
		if seen[x] {
			continue
		}
		seen[x] = true
		stack = append(stack, x.Succs...)
	}
	return false
}

// filtersEOF: module predicate f(err) bool that answers false when err == io.EOF (on some return reached under that identity).
func (p *Program) filtersEOF(fn *ssa.Function) bool {
	if fn == nil || len(fn.Params) != 1 || !isErrorType(fn.Params[0].Type()) || len(fn.Blocks) == 0 {
		return false
	}
	par := fn.Params[0]
	isEOFTest := func(g guardFact) bool {
		x, y, op, ok := g.cmp()
		if !ok || op != token.EQL {
			return false
		}
		if y == ssa.Value(par) {
			x, y = y, x
		}
		return x == ssa.Value(par) && isIOEOF(y)
	}
	// some edge that establishes err == io.EOF leads to a return that can answer false
	mayFalse := func(rt *ssa.Return) bool {
		for _, o := range p.origins(rt.Results[0], originOpts{}) {
			if c, isC := o.(*ssa.Const); isC && c.Value != nil && c.Value.String() == "true" {
				continue
			}
			return true
		}
		return false
	}
	found := false
	for _, b := range fn.Blocks {
		ifi := blockIf(b)
		if ifi == nil {
			continue
		}
		for succ := 0; succ < 2; succ++ {
			fs, never := p.factsWhen(ifi.Cond, succ == 0)
			if never {
				continue
			}
			est := false
			for _, f := range fs {
				if f.If == nil {
					f.If = ifi
				}
				if isEOFTest(f) {
					est = true
				}
			}
			if !est {
				continue
			}
			seen := map[*ssa.BasicBlock]bool{}
			stack := []*ssa.BasicBlock{b.Succs[succ]}
			for len(stack) > 0 {
				x := stack[len(stack)-1]
				stack = stack[:len(stack)-1]
				if seen[x] {
					continue
				}
				seen[x] = true
				if len(x.Instrs) > 0 {
					if rt, ok := x.Instrs[len(x.Instrs)-1].(*ssa.Return); ok && len(rt.Results) == 1 && mayFalse(rt) {
						found = true
					}
				}
				stack = append(stack, x.Succs...)
			}
		}
	}
	return found
}

func ruleFwdEOFFiltered(r *Run) {
	p := r.P
	n := 0
	for _, g := range p.proxyClosures() {
		ei := errResultIndex(g)
		if ei < 0 || p.isTransparent(g) {
			continue // a helper's result is judged where the forwarder returns it
		}
		site := 0
		eachInstr(g, func(in ssa.Instruction) {
			rt, ok := in.(*ssa.Return)
			if !ok {
				return
			}
			val := rt.Results[ei]
			var pumped *ssa.Call
			for _, o := range p.origins(val, originOpts{}) {
				var c *ssa.Call
				switch x := o.(type) {
				case *ssa.Call:
					c = x
				case *ssa.Extract:
					c, _ = x.Tuple.(*ssa.Call)
				}
				if c == nil || !c.Common().IsInvoke() {
					continue
				}
				if m := c.Common().Method.Name(); (m == "RecvMsg" || m == "SendMsg") && blockInLoop(c.Block()) {
					pumped = c
				}
				// SendMsg on the backend stream yields io.EOF whenever the backend has already ended the call,
				// first message included (found D43): its status is RecvMsg's to report
				if m := c.Common().Method.Name(); m == "SendMsg" && strings.HasSuffix(typeString(c.Common().Value.Type()), "grpc.ClientStream") {
					pumped = c
				}
			}
			if pumped == nil {
				return
			}
			n++
			site++
			key := fmt.Sprintf("%s/pump-error-return#%d", shortFunc(g), site)
			same := func(v ssa.Value) bool { return v == val || p.sameOrigins(v, val) }
			filtered := p.guardedInEveryContext(rt.Block(), func(f guardFact) bool {
				if c, ok := f.Cond.(*ssa.Call); ok && f.True {
					if callee := c.Call.StaticCallee(); callee != nil && !c.Call.IsInvoke() && len(c.Call.Args) == 1 && same(c.Call.Args[0]) && p.filtersEOF(callee) {
						return true
					}
					return false
				}
				x, y, op, ok := f.cmp()
				if !ok || op != token.NEQ {
					return false
				}
				return (same(x) && isIOEOF(y)) || (same(y) && isIOEOF(x))
			})
			r.check(filtered, key, rt.Pos(), "the pump's error is returned only where the end-of-stream filter let it through",
				fmt.Sprintf("the forwarder returns the error of %s without passing it through the end-of-stream filter: io.EOF - the peer simply finished - reaches the front client as status Unknown", shortName(calleeName(pumped))))
		})
	}
	if n == 0 {
		r.undecided("stream forwarder", token.NoPos, "no return of a pump error found in the forwarder closures")
	}
}

func init() {
	register(&Rule{Name: "STATS-JOINED", Floor: 3,
		Doc: "the serve function emits stats.End only after waiting on the stream's WaitGroup; so that End is the last event of the RPC, every method of that stream type that reports a stats event registers with the WaitGroup before the event (wg.Add dominates it) and leaves it by a deferred Done: an unregistered RecvMsg still decoding on another goroutine reports its InPayload after End",
		Run: ruleStatsJoined})
}

func ruleStatsJoined(r *Run) {
	p := r.P
	isWG := func(t types.Type) bool {
		n := namedOf(t)
		return n != nil && n.Obj().Pkg() != nil && n.Obj().Pkg().Path() == "sync" && n.Obj().Name() == "WaitGroup"
	}
	// wgField: the WaitGroup field a sync.WaitGroup method call is made on
	wgField := func(c ssa.CallInstruction, method string) *types.Var {
		if calleeName(c) != "(*sync.WaitGroup)."+method || len(c.Common().Args) == 0 {
			return nil
		}
		for _, o := range p.origins(c.Common().Args[0], originOpts{}) {
			if fa, ok := o.(*ssa.FieldAddr); ok && isWG(fieldOfAddr(fa).Type()) {
				return fieldOfAddr(fa)
			}
		}
		return nil
	}
	// the WaitGroup fields some serve function waits on before it emits End
	joined := map[*types.Var]bool{}
	for _, name := range []string{"serveGRPC", "serveHTTP"} {
		fn := p.Method("Mux", name)
		if fn == nil {
			continue
		}
		p.eachInstrRegion(fn, func(_ *ssa.Function, in ssa.Instruction) {
			if c, ok := in.(ssa.CallInstruction); ok {
				if f := wgField(c, "Wait"); f != nil {
					joined[f] = true
				}
			}
		})
	}
	if len(joined) == 0 {
		r.undecided("joined WaitGroup", token.NoPos, "no serve function waits on a stream's WaitGroup")
		return
	}
	n := 0
	for f := range joined {
		owner := p.fieldOwner(f)
		for _, fn := range p.ModuleFuncs() {
			if fn.Parent() != nil || fn.Signature.Recv() == nil || len(fn.Blocks) == 0 {
				continue
			}
			if nt := namedOf(fn.Signature.Recv().Type()); nt == nil || nt.Obj().Name() != owner {
				continue
			}
			var events []ssa.Instruction
			p.eachInstrRegion(fn, func(g *ssa.Function, in ssa.Instruction) {
				if ev, _ := statsEvent(in); ev != "" && g == fn {
					events = append(events, in)
				}
			})
			// events reported by helpers of the method count at the call of the helper
			eachInstr(fn, func(in ssa.Instruction) {
				if c, ok := in.(ssa.CallInstruction); ok {
					if callee := c.Common().StaticCallee(); callee != nil && p.isTransparent(callee) && p.callMay(c, func(x ssa.Instruction) bool { ev, _ := statsEvent(x); return ev != "" }) {
						events = append(events, in)
					}
				}
			})
			if len(events) == 0 {
				continue
			}
			var adds, dones []ssa.Instruction
			eachInstr(fn, func(in ssa.Instruction) {
				c, ok := in.(ssa.CallInstruction)
				if !ok {
					return
				}
				if wgField(c, "Add") == f {
					adds = append(adds, in)
				}
				if _, isDefer := in.(*ssa.Defer); isDefer && wgField(c, "Done") == f {
					dones = append(dones, in)
				}
			})
			n++
			key := shortFunc(fn) + "/registered-before-events"
			good := true
			for _, ev := range events {
				okAdd, okDone := false, false
				for _, a := range adds {
					okAdd = okAdd || instrDominates(a, ev)
				}
				for _, d := range dones {
					okDone = okDone || instrDominates(d, ev)
				}
				good = good && okAdd && okDone
			}
			r.check(good, key, fn.Pos(), fmt.Sprintf("%s.Add(1) and a deferred Done dominate every stats event of the method: the serve function's Wait (and so End) comes after them", f.Name()),
				fmt.Sprintf("%s reports a stats event without being registered with %s.%s (Add before the event, deferred Done): the serve function waits on that WaitGroup before it emits stats.End, so an event of a call still running on another goroutine arrives after End", shortFunc(fn), owner, f.Name()))
		}
	}
	if n == 0 {
		r.undecided("stream methods", token.NoPos, "no method of a joined stream type reports a stats event")
	}
}

func init() {
	register(&Rule{Name: "POOL-SELF-TERMINAL", Floor: 1,
		Doc: "a method that returns its own receiver to a sync.Pool in mid-use (gzipReader.Read on io.EOF) reports a non-nil error on every return after that Put: a nil error tells the caller to call again on an object that is already back in the pool - the next call puts it a second time and two requests end up sharing one reader",
		Run: rulePoolSelfTerminal})
}

func rulePoolSelfTerminal(r *Run) {
	p := r.P
	n := 0
	for _, fn := range p.ModuleFuncs() {
		if fn.Parent() != nil || fn.Signature.Recv() == nil || len(fn.Blocks) == 0 {
			continue
		}
		ei := errResultIndex(fn)
		if ei < 0 {
			continue
		}
		recv := fn.Params[0]
		site := 0
		eachInstr(fn, func(in ssa.Instruction) {
			c, ok := in.(*ssa.Call)
			if !ok {
				return
			}
			// (*sync.Pool).Put itself or a thin put-accessor (z.release()); the raw Put inside an accessor is
			// judged at the accessor's call sites
			put, isPut := p.poolPut(c)
			if !isPut || put == nil {
				return
			}
			if _, puts := p.poolAccessors(); calleeName(c) == "(*sync.Pool).Put" {
				if acc, isAcc := puts[fn]; isAcc && acc.raw == ssa.CallInstruction(c) {
					return
				}
			}
			self := false
			for _, o := range p.origins(put, originOpts{local: true}) {
				if o == ssa.Value(recv) {
					self = true
				}
			}
			if !self {
				return
			}
			n++
			site++
			key := fmt.Sprintf("%s/terminal-after-self-put#%d", shortFunc(fn), site)
			// an io.Reader may be read again after it reported io.EOF (the stream codecs do: they use data
			// delivered together with io.EOF and let the next Read report the io.EOF), so a Read that gives its own
			// receiver away is never terminal: by the next call another request owns the object
			if fn.Name() == "Read" && fn.Signature.Params().Len() == 1 && fn.Signature.Results().Len() == 2 {
				r.bad(key, c.Pos(), "%s puts its own receiver into the pool, but a reader is legitimately read again after its io.EOF (the stream codecs use data delivered with io.EOF and read once more): the next Read runs on an object that another request may have taken from the pool and Reset onto its own body - the finished stream receives the other request's data", shortFunc(fn))
				return
			}
			putBlock := c.Block()
			after := func(b *ssa.BasicBlock) bool { return b != nil && (b == putBlock || putBlock.Dominates(b)) }
			bad := false
			var pos token.Pos = c.Pos()
			eachInstr(fn, func(x ssa.Instruction) {
				rt, ok := x.(*ssa.Return)
				if !ok {
					return
				}
				for _, l := range p.guardedLeaves(rt.Results[ei]) {
					where := l.pred
					if where == nil {
						where = rt.Block()
					}
					if !after(where) {
						continue
					}
					if isNilConst(l.v) {
						bad = true
						pos = rt.Pos()
					}
				}
			})
			r.check(!bad, key, pos, "every return after the receiver went back to the pool carries a non-nil error (the caller stops using it)",
				fmt.Sprintf("%s puts its own receiver into the pool and can then return a nil error: the caller calls again on a pooled object, which is handed to another request in the meantime (and put a second time)", shortFunc(fn)))
		})
	}
	// a method that gives a *field* of its receiver to a pool (the wrapper stays with its stream, the pooled object
	// goes back): the field is cleared on every path from the Put to a return, and the method touches the field
	// only behind a nil test - later calls find nothing to use
	for _, fn := range p.ModuleFuncs() {
		if fn.Parent() != nil || fn.Signature.Recv() == nil || len(fn.Blocks) == 0 {
			continue
		}
		recv := fn.Params[0]
		site := 0
		eachInstr(fn, func(in ssa.Instruction) {
			c, ok := in.(*ssa.Call)
			if !ok {
				return
			}
			put, isPut := p.poolPut(c)
			if !isPut || put == nil {
				return
			}
			var fld *types.Var
			for _, o := range p.origins(put, originOpts{local: true, throughConvert: true}) {
				if u, ok := o.(*ssa.UnOp); ok && u.Op == token.MUL {
					if fa, ok := u.X.(*ssa.FieldAddr); ok && (fa.X == ssa.Value(recv) || p.onlyFrom(fa.X, recv)) {
						fld = fieldOfAddr(fa)
					}
				}
			}
			if fld == nil {
				return
			}
			// deferred puts run at the end of a terminal method (Close): not mid-use
			if _, isDefer := in.(*ssa.Defer); isDefer {
				return
			}
			n++
			site++
			key := fmt.Sprintf("%s/field-cleared-after-put:%s#%d", shortFunc(fn), fld.Name(), site)
			isClear := func(x ssa.Instruction) bool {
				st, ok := x.(*ssa.Store)
				if !ok || !isNilConst(st.Val) {
					return false
				}
				fa, ok := st.Addr.(*ssa.FieldAddr)
				return ok && fieldOfAddr(fa) == fld
			}
			// cleared after the Put on every path - or before it (`r.z = nil; r.pool.Put(z)`), with nothing stored
			// into the field afterwards
			clearedBefore := false
			if w, _ := (pathQuery{fn: fn, target: func(x ssa.Instruction) bool { return x == in }, barrier: isClear}).find(); w == nil {
				clearedBefore = true
				eachInstr(fn, func(x ssa.Instruction) {
					if st, ok := x.(*ssa.Store); ok && !isNilConst(st.Val) {
						if fa, ok := st.Addr.(*ssa.FieldAddr); ok && fieldOfAddr(fa) == fld {
							clearedBefore = false
						}
					}
				})
			}
			if w, _ := (pathQuery{fn: fn, start: in, target: isReturn, barrier: isClear}).find(); w != nil && !clearedBefore {
				r.bad(key, c.Pos(), "%s gives its field %s to the pool and can return without clearing it (%s): the next call uses an object that another request may have taken from the pool", shortFunc(fn), fld.Name(), p.describePath(w))
				return
			}
			// every load of the field that is used (called on / dereferenced) is behind a nil test of the field
			isFieldLoad := func(v ssa.Value) bool {
				u, ok := v.(*ssa.UnOp)
				if !ok || u.Op != token.MUL {
					return false
				}
				fa, ok := u.X.(*ssa.FieldAddr)
				return ok && fieldOfAddr(fa) == fld
			}
			unguarded := false
			eachInstr(fn, func(x ssa.Instruction) {
				call, ok := x.(ssa.CallInstruction)
				if !ok || x == ssa.Instruction(c) {
					return
				}
				uses := false
				if call.Common().IsInvoke() && isFieldLoad(call.Common().Value) {
					uses = true
				}
				for _, a := range call.Common().Args {
					if isFieldLoad(a) {
						uses = true
					}
				}
				if !uses {
					return
				}
				guarded := false
				for _, g := range guardsOf(x.Block()) {
					xv, yv, op, ok := g.cmp()
					if ok && isNilConst(yv) && isFieldLoad(xv) && op == token.NEQ {
						guarded = true
					}
				}
				if !guarded {
					unguarded = true
				}
			})
			r.check(!unguarded, key, c.Pos(), "the field is cleared after the Put on every path and used only behind a nil test: later calls find nothing to use",
				fmt.Sprintf("%s gives its field %s to the pool and clears it, but uses the field without testing it for nil first: a call after the release dereferences nil", shortFunc(fn), fld.Name()))
		})
	}
	if n == 0 {
		r.undecided("self-releasing methods", token.NoPos, "no method gives its own receiver or a field of it to a sync.Pool outside a defer")
	}
}

func init() {
	register(&Rule{Name: "OWS-BEFORE-SEP", Floor: 2,
		Doc: "in the Accept / Accept-Encoding parser every test for a separator or parameter name at the head of the remaining input (strings.HasPrefix(s, \";\"), \",\", \"q=\") is made on input from which optional whitespace was just skipped (RFC 7231 allows OWS around ';' and ','): tested on unskipped input, 'text/html ;q=0.9, application/json' loses its weight and everything after it on the line",
		Run: ruleOWSBeforeSep})
}

// isSpaceSkipper: a call that returns its string argument without leading whitespace.
func (p *Program) isSpaceSkipper(c *ssa.Call) bool {
	switch calleeName(c) {
	case "strings.TrimSpace", "strings.TrimLeft", "strings.TrimLeftFunc", "strings.Trim":
		return true
	}
	callee := c.Call.StaticCallee()
	if callee == nil || c.Call.IsInvoke() || !p.InModule(callee) || len(callee.Params) != 1 || callee.Signature.Results().Len() != 1 {
		return false
	}
	// func(s string) string returning s[i:] / a skipper's result, with a scan over a space class in between
	sliceOfParam, scans := false, false
	p.eachInstrRegion(callee, func(_ *ssa.Function, in ssa.Instruction) {
		switch x := in.(type) {
		case *ssa.Return:
			for _, o := range p.origins(x.Results[0], originOpts{local: true}) {
				if sl, ok := o.(*ssa.Slice); ok && sl.X == ssa.Value(callee.Params[0]) && sl.Low != nil && sl.High == nil {
					sliceOfParam = true
				}
				if cc, ok := o.(*ssa.Call); ok && cc != c && p.isSpaceSkipperShallow(cc) {
					sliceOfParam = true
					scans = true
				}
			}
		case *ssa.BinOp:
			// octetTypes[s[i]] & isSpace, or s[i] == ' '
			if x.Op == token.AND || x.Op == token.EQL || x.Op == token.NEQ {
				for _, opnd := range []ssa.Value{x.X, x.Y} {
					if k, ok := constInt(opnd); ok && (k == ' ' || k == '\t' || (x.Op == token.AND && k != 0)) {
						scans = true
					}
				}
			}
		case *ssa.Call:
			if n := calleeName(x); n == "unicode.IsSpace" {
				scans = true
			}
		}
	})
	return sliceOfParam && scans
}

func (p *Program) isSpaceSkipperShallow(c *ssa.Call) bool {
	switch calleeName(c) {
	case "strings.TrimSpace", "strings.TrimLeft", "strings.TrimLeftFunc", "strings.Trim":
		return true
	}
	return false
}

func ruleOWSBeforeSep(r *Run) {
	p := r.P
	// the header parser is whatever the two negotiators call (parseAccept today): all head tests of their regions
	seen := map[ssa.Instruction]bool{}
	n := 0
	for _, name := range []string{"negotiateContentType", "negotiateContentEncoding"} {
		root := p.Func(name)
		if root == nil {
			r.missing("func " + name)
			continue
		}
		p.eachInstrRegion(root, func(fn *ssa.Function, in ssa.Instruction) {
			c, ok := in.(*ssa.Call)
			if !ok || (calleeName(c) != "strings.HasPrefix" && calleeName(c) != "strings.CutPrefix") || seen[in] {
				return
			}
			seen[in] = true
			sep, isConst := constString(c.Call.Args[1])
			// list and parameter separators and parameter names ("q="): where RFC 7231 allows OWS; a test inside a
			// token (the "." of a quality value) is not one
			if !isConst || !(sep == ";" || sep == "," || strings.HasSuffix(sep, "=")) {
				return
			}
			n++
			key := fmt.Sprintf("%s/head-test:%q", shortFunc(fn), sep)
			bad := ""
			for _, o := range p.origins(c.Call.Args[0], originOpts{local: true}) {
				if sc, ok := o.(*ssa.Call); ok && p.isSpaceSkipper(sc) {
					continue
				}
				bad = describeValue(o)
				if n := sourceCall(o); n != "" {
					bad = "the result of " + shortName(n)
				}
			}
			r.check(bad == "", key, c.Pos(), "tested on input whose leading optional whitespace was just skipped",
				fmt.Sprintf("the test for %q is made on %s, not on input from which optional whitespace was skipped: a header with a space before %q is cut short there", sep, bad, sep))
		})
	}
	if n == 0 {
		r.undecided("accept-parser/head-tests", token.NoPos, "no strings.HasPrefix test of the remaining input found under negotiateContentType / negotiateContentEncoding")
	}
}

func init() {
	register(&Rule{Name: "PARAM-INDEPENDENT", Floor: 1,
		Doc: "params.set applies every parameter on its own, walking its field path down from the request message: no protoreflect/proto message value is carried around the loop over the parameter list (a 'reuse the sub-message resolved for the previous parameter' shortcut writes a path value into a sibling field of the same message type)",
		Run: ruleParamIndependent})
}

func ruleParamIndependent(r *Run) {
	p := r.P
	fn := p.Method("params", "set")
	if fn == nil {
		r.missing("method (params).set")
		return
	}
	// the loop over the parameter list: a header phi that indexes the receiver
	var head *ssa.BasicBlock
	p.eachInstrRegion(fn, func(g *ssa.Function, in ssa.Instruction) {
		ia, ok := in.(*ssa.IndexAddr)
		if !ok || g != fn {
			return
		}
		// `for i := …; i < len(ps); i++` indexes with the counter phi, `for _, p := range ps` with counter+1
		ph, ok := ia.Index.(*ssa.Phi)
		if bo, isBin := ia.Index.(*ssa.BinOp); !ok && isBin && bo.Op == token.ADD {
			ph, ok = bo.X.(*ssa.Phi)
		}
		if !ok || !blockInLoop(ph.Block()) {
			return
		}
		for _, o := range p.origins(ia.X, originOpts{local: true, throughSlice: true}) {
			if o == ssa.Value(fn.Params[0]) {
				head = ph.Block()
			}
		}
	})
	if head == nil {
		r.undecided("(params).set/loop", fn.Pos(), "no loop over the receiver list found")
		return
	}
	isMsg := func(t types.Type) bool {
		n := namedOf(t)
		if n == nil || n.Obj().Pkg() == nil {
			return false
		}
		switch n.Obj().Pkg().Path() + "." + n.Obj().Name() {
		case protoreflect + ".Message", "google.golang.org/protobuf/proto.Message", "google.golang.org/protobuf/reflect/protoreflect.ProtoMessage":
			return true
		}
		return false
	}
	bad := ""
	var pos token.Pos = fn.Pos()
	for _, in := range head.Instrs {
		ph, ok := in.(*ssa.Phi)
		if !ok {
			break
		}
		if isMsg(ph.Type()) {
			// carried only if some way back brings a value made inside the loop
			for i, e := range ph.Edges {
				if blockReaches(head, head.Preds[i]) && !isNilConst(e) {
					if _, isPar := e.(*ssa.Parameter); !isPar {
						bad = ph.Comment
						pos = ph.Pos()
					}
				}
			}
		}
	}
	// the same through a variable cell written in the loop and read before being rewritten is not modelled: a
	// message-typed local that lives across iterations shows up as a phi unless a closure captures it
	r.check(bad == "", "(params).set/no-message-carried-over", pos, "each parameter is resolved from the request message on its own",
		fmt.Sprintf("the message held in %q survives from one parameter to the next: a parameter can be written relative to where the previous one ended instead of along its own field path", bad))
}

func init() {
	register(&Rule{Name: "LEX-EOF-ONLY", Floor: 1,
		Doc: "the request-path lexer closes its token list with the end marker only where it has read the end of the input (the emit of tokenEOF is reached only under next() == eof): closing the list anywhere else - when the token budget runs out, say - hands the matcher a truncated path that templates match which do not cover the request",
		Run: ruleLexEOFOnly})
}

func ruleLexEOFOnly(r *Run) {
	p := r.P
	fn := p.Func("lexPath")
	if fn == nil {
		r.missing("func lexPath")
		return
	}
	scope := p.Lark.Types.Scope()
	tokEOF, _ := scope.Lookup("tokenEOF").(*types.Const)
	eofC, _ := scope.Lookup("eof").(*types.Const)
	if tokEOF == nil || eofC == nil {
		r.missing("constants tokenEOF / eof")
		return
	}
	tokVal, _ := constToInt(tokEOF.Val())
	eofVal, _ := constToInt(eofC.Val())
	fromNext := func(v ssa.Value) bool {
		for _, o := range p.origins(v, originOpts{throughConvert: true, local: true}) {
			if c, ok := o.(*ssa.Call); ok && calleeName(c) == "(*larking.io/larking.lexer).next" {
				return true
			}
		}
		return false
	}
	sawEnd := func(g guardFact) bool {
		x, y, op, ok := g.cmp()
		if !ok || op != token.EQL {
			return false
		}
		if k, isC := constInt(y); isC && k == eofVal && fromNext(x) {
			return true
		}
		if k, isC := constInt(x); isC && k == eofVal && fromNext(y) {
			return true
		}
		return false
	}
	n := 0
	p.eachInstrRegion(fn, func(g *ssa.Function, in ssa.Instruction) {
		c, ok := in.(ssa.CallInstruction)
		if !ok || calleeName(c) != "(*larking.io/larking.lexer).emit" || len(c.Common().Args) < 2 {
			return
		}
		if k, isC := constInt(c.Common().Args[1]); !isC || k != tokVal {
			return
		}
		n++
		key := fmt.Sprintf("%s/end-marker#%d", shortFunc(g), n)
		r.check(p.guardedInEveryContext(in.Block(), sawEnd), key, in.Pos(), "the end marker is emitted only where next() returned eof",
			"the end marker is emitted on a path where the lexer has not read the end of the input: the rest of the request path (further segments, a :verb) is silently dropped before matching")
	})
	if n == 0 {
		r.undecided("lexPath/end-marker", fn.Pos(), "lexPath never emits the end marker")
	}
}

func init() {
	register(&Rule{Name: "QUERY-EVERY-VALUE", Floor: 1,
		Doc: "parseQueryParams turns every value of every query key into a parameter or fails: from the read of a value no path returns to the loop over the values without appending to the result (a skipped value - an empty string taken for 'not set' - drops an element of a repeated field, leaves a oneof member unset, and accepts empty numeric text)",
		Run: ruleQueryEveryValue})
}

func ruleQueryEveryValue(r *Run) {
	p := r.P
	fn := p.Method("method", "parseQueryParams")
	if fn == nil {
		r.missing("method (*method).parseQueryParams")
		return
	}
	n := 0
	eachInstr(fn, func(in ssa.Instruction) {
		// the read of one value: element of a []string that comes from ranging over the url.Values map
		u, ok := in.(*ssa.UnOp)
		if !ok || u.Op != token.MUL {
			return
		}
		ia, ok := u.X.(*ssa.IndexAddr)
		if !ok || !blockInLoop(in.Block()) {
			return
		}
		if bt, ok := u.Type().Underlying().(*types.Basic); !ok || bt.Kind() != types.String {
			return
		}
		fromRange := false
		for _, o := range p.origins(ia.X, originOpts{local: true}) {
			if ex, ok := o.(*ssa.Extract); ok {
				if _, isNext := ex.Tuple.(*ssa.Next); isNext {
					fromRange = true
				}
			}
		}
		if !fromRange {
			return
		}
		// the header of the loop over the values: the innermost loop header that dominates the read
		var head *ssa.BasicBlock
		for b := in.Block(); b != nil; b = b.Idom() {
			isHead := false
			for _, pr := range b.Preds {
				if blockReaches(in.Block(), pr) && b.Dominates(pr) {
					isHead = true
				}
			}
			if isHead && b != in.Block() || (isHead && len(b.Preds) > 1) {
				head = b
				break
			}
		}
		if head == nil {
			return
		}
		n++
		key := fmt.Sprintf("(*method).parseQueryParams/value-read#%d", n)
		q := pathQuery{fn: fn, start: in,
			target: func(x ssa.Instruction) bool { return x.Block() == head },
			barrier: func(x ssa.Instruction) bool {
				if c, ok := x.(*ssa.Call); ok && calleeName(c) == "builtin.append" {
					return true
				}
				return false
			}}
		if w, _ := q.find(); w != nil {
			r.bad(key, in.Pos(), "a query value can be read and passed over without becoming a parameter (%s): the request message the handler gets is not the one the query string describes", p.describePath(w))
		} else {
			r.ok(key, in.Pos(), "every value read is appended to the parameter list or ends the function with an error")
		}
	})
	if n == 0 {
		r.undecided("(*method).parseQueryParams/values", fn.Pos(), "no loop over the values of a query key found")
	}
}

func init() {
	register(&Rule{Name: "TOKEN-WIDTH", Floor: 6,
		Doc: "a token whose text is fixed by the grammar ('/', '*', '**', '{', '}', '=', '.', ':') is emitted after exactly that many runes were consumed since the previous token (next +1, backup -1, counted on every path through the lexer functions; a run-accepting call leaves the count open): '***' lexed as one '**' token, or a look-ahead rune that is not given back, registers templates the grammar does not derive",
		Run: ruleTokenWidth})
}

func ruleTokenWidth(r *Run) {
	p := r.P
	scope := p.Lark.Types.Scope()
	fixed := map[int64]int{}
	names := map[int64]string{}
	for name, w := range map[string]int{"tokenSlash": 1, "tokenStar": 1, "tokenStarStar": 2, "tokenVariableStart": 1, "tokenVariableEnd": 1, "tokenEqual": 1, "tokenDot": 1, "tokenVerb": 1} {
		if c, ok := scope.Lookup(name).(*types.Const); ok {
			if k, ok := constToInt(c.Val()); ok {
				fixed[k] = w
				names[k] = name
			}
		}
	}
	if len(fixed) < 4 {
		r.missing("token kind constants (tokenSlash, tokenStar, tokenStarStar, …)")
		return
	}
	const lexerT = "*larking.io/larking.lexer"
	takesLexer := func(fn *ssa.Function) bool {
		return fn != nil && p.InModule(fn) && len(fn.Blocks) > 0 && len(fn.Params) > 0 && typeString(fn.Params[0].Type()) == "*lexer"
	}
	const unk = -100
	// known constants on a path: parameters bound at an inlined call, results of inlined helper calls
	type cval struct {
		known bool
		v     int64
	}
	type outcome struct {
		w   int
		ret cval
	}
	type finding struct {
		pos      token.Pos
		fn       *ssa.Function
		kind     int64
		w, entry int
	}
	var bad []finding
	type site struct {
		pos  token.Pos
		kind int64
	}
	checked := map[site]*ssa.Function{}
	entry := map[*ssa.Function]map[int]bool{}
	addEntry := func(fn *ssa.Function, w int) bool {
		if entry[fn] == nil {
			entry[fn] = map[int]bool{}
		}
		if entry[fn][w] {
			return false
		}
		entry[fn][w] = true
		return true
	}
	changedEntries := false
	evalC := func(env map[ssa.Value]cval, v ssa.Value) cval {
		if c, ok := env[v]; ok {
			return c
		}
		switch x := v.(type) {
		case *ssa.Const:
			if x.Value != nil {
				if x.Value.Kind() == constant.Bool {
					if constant.BoolVal(x.Value) {
						return cval{true, 1}
					}
					return cval{true, 0}
				}
				if k, ok := constToInt(x.Value); ok {
					return cval{true, k}
				}
			}
		case *ssa.UnOp:
			if x.Op == token.NOT {
				if c, ok := env[x.X]; ok && c.known {
					return cval{true, 1 - c.v}
				}
			}
		}
		return cval{}
	}
	// walk enumerates the ways through fn entered w0 runes into a token; helper methods of the lexer are inlined
	// (their parameters bound to the caller's constants, their constant results known to the caller's branches),
	// the grammar functions (lexX(l)) are entered at the width found at their call sites and hand back at a boundary
	var walk func(fn *ssa.Function, w0 int, args map[ssa.Value]cval, report bool, depth int) []outcome
	walk = func(fn *ssa.Function, w0 int, args map[ssa.Value]cval, report bool, depth int) []outcome {
		type st struct {
			b   *ssa.BasicBlock
			pc  int
			w   int
			env map[ssa.Value]cval
		}
		keyOf := func(s st) string {
			var ks []string
			for k, v := range s.env {
				if v.known {
					ks = append(ks, fmt.Sprintf("%s=%d", k.Name(), v.v))
				}
			}
			sort.Strings(ks)
			return fmt.Sprintf("%d.%d.%d.%v", s.b.Index, s.pc, s.w, ks)
		}
		var outs []outcome
		seenOut := map[outcome]bool{}
		seen := map[string]bool{}
		start := st{fn.Blocks[0], 0, w0, map[ssa.Value]cval{}}
		for k, v := range args {
			start.env[k] = v
		}
		work := []st{start}
		steps := 0
		for len(work) > 0 {
			s := work[len(work)-1]
			work = work[:len(work)-1]
			if steps++; steps > 20000 {
				break
			}
			if k := keyOf(s); seen[k] {
				continue
			} else {
				seen[k] = true
			}
			if s.pc >= len(s.b.Instrs) {
				continue
			}
			in := s.b.Instrs[s.pc]
			w := s.w
			next := func(b *ssa.BasicBlock, pc int, w int, env map[ssa.Value]cval) {
				if w != unk && (w > 6 || w < -6) {
					w = unk
				}
				work = append(work, st{b, pc, w, env})
			}
			cloneEnv := func() map[ssa.Value]cval {
				e := make(map[ssa.Value]cval, len(s.env))
				for k, v := range s.env {
					e[k] = v
				}
				return e
			}
			switch x := in.(type) {
			case *ssa.If:
				c := evalC(s.env, x.Cond)
				switch {
				case c.known && c.v != 0:
					next(s.b.Succs[0], 0, w, s.env)
				case c.known:
					next(s.b.Succs[1], 0, w, s.env)
				default:
					next(s.b.Succs[0], 0, w, s.env)
					next(s.b.Succs[1], 0, w, cloneEnv())
				}
				continue
			case *ssa.Jump:
				next(s.b.Succs[0], 0, w, s.env)
				continue
			case *ssa.Return:
				o := outcome{w: w}
				if len(x.Results) == 1 {
					o.ret = evalC(s.env, x.Results[0])
				}
				if !seenOut[o] {
					seenOut[o] = true
					outs = append(outs, o)
				}
				continue
			case *ssa.Panic:
				continue
			case ssa.CallInstruction:
				cv, isVal := in.(ssa.Value)
				switch n := calleeName(x); n {
				case "(" + lexerT + ").next":
					if w != unk {
						w++
					}
				case "(" + lexerT + ").backup":
					if w != unk {
						w--
					}
				case "(" + lexerT + ").emit":
					if k := evalC(s.env, x.Common().Args[1]); k.known {
						if want, isFixed := fixed[k.v]; isFixed && report {
							checked[site{in.Pos(), k.v}] = fn
							if w != want {
								bad = append(bad, finding{in.Pos(), fn, k.v, w, w0})
							}
						}
					}
					w = 0
				default:
					callee := x.Common().StaticCallee()
					if !takesLexer(callee) || x.Common().IsInvoke() {
						break
					}
					if callee.Signature.Recv() == nil {
						// a grammar function
						if addEntry(callee, w) {
							changedEntries = true
						}
						w = 0
						break
					}
					if depth > 4 {
						w = unk
						break
					}
					// a helper method of the lexer: inline
					bound := map[ssa.Value]cval{}
					for i, par := range callee.Params {
						if i < len(x.Common().Args) {
							if c := evalC(s.env, x.Common().Args[i]); c.known {
								bound[par] = c
							}
						}
					}
					res := walk(callee, w, bound, report, depth+1)
					if len(res) == 0 {
						continue // never returns
					}
					for i, o := range res {
						env := s.env
						if i > 0 {
							env = cloneEnv()
						}
						if isVal {
							if o.ret.known {
								env[cv] = o.ret
							} else {
								delete(env, cv)
							}
						}
						next(s.b, s.pc+1, o.w, env)
					}
					continue
				}
			}
			next(s.b, s.pc+1, w, s.env)
		}
		return outs
	}
	// roots: the two lexers are started at the beginning of their input
	// (whatever lexer function is called from code that is not itself a lexer function: lexTemplate, lexPath today)
	for _, fn := range p.ModuleFuncs() {
		eachInstr(fn, func(in ssa.Instruction) {
			c, ok := in.(ssa.CallInstruction)
			if !ok || c.Common().IsInvoke() {
				return
			}
			callee := c.Common().StaticCallee()
			if !takesLexer(callee) || callee.Signature.Recv() != nil {
				return
			}
			top := fn
			for top.Parent() != nil {
				top = top.Parent()
			}
			if !takesLexer(top) {
				addEntry(callee, 0)
			}
		})
	}
	if len(entry) == 0 {
		r.missing("lexer entry points (functions taking *lexer called from the matcher / registration)")
		return
	}
	for round := 0; round < 12; round++ {
		changedEntries = false
		var fns []*ssa.Function
		for fn := range entry {
			fns = append(fns, fn)
		}
		for _, fn := range fns {
			var ws []int
			for w := range entry[fn] {
				ws = append(ws, w)
			}
			for _, w := range ws {
				walk(fn, w, nil, false, 0)
			}
		}
		if !changedEntries {
			break
		}
	}
	for fn, ws := range entry {
		for w := range ws {
			walk(fn, w, nil, true, 0)
		}
	}
	// stable keys: function/emit:kind#n, n counting the checked emits of that kind in the function in source order
	var sites []site
	for s := range checked {
		sites = append(sites, s)
	}
	sort.Slice(sites, func(i, j int) bool { return sites[i].pos < sites[j].pos })
	ordinal := map[site]string{}
	cnt := map[string]int{}
	for _, s := range sites {
		k := shortFunc(checked[s]) + "/emit:" + names[s.kind]
		cnt[k]++
		ordinal[s] = fmt.Sprintf("%s#%d", k, cnt[k])
	}
	isBad := map[site]bool{}
	for _, f := range bad {
		s := site{f.pos, f.kind}
		if isBad[s] {
			continue
		}
		isBad[s] = true
		got := fmt.Sprint(f.w)
		if f.w == unk {
			got = "an open number of"
		}
		r.bad(ordinal[s], f.pos, "%s is emitted after %s rune(s) were consumed since the previous token (the function entered %d rune(s) into a token); its text is fixed at %d: the token swallows input the grammar gives to other tokens", names[f.kind], got, f.entry, fixed[f.kind])
	}
	for _, s := range sites {
		if !isBad[s] {
			r.ok(ordinal[s], s.pos, "emitted after exactly %d rune(s) on every path", fixed[s.kind])
		}
	}
	if len(checked) == 0 {
		r.undecided("lexer/fixed-tokens", token.NoPos, "no emit of a fixed-text token reached from lexTemplate / lexPath")
	}
}
