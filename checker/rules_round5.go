package main

import (
	"fmt"
	"go/token"
	"go/types"
	"strings"

	"golang.org/x/tools/go/ssa"
)

// Rules added after the fifth round of seeded changes (DESIGN.md section 10.6).

func init() {
	register(&Rule{Name: "MATCH-SOURCE", Floor: 3,
		Doc: "the method a request is dispatched to comes from the trie walk made for this very request: every *method returned by state.match, path.match and path.search is nil, the result of the next function of that chain, an entry of a node's per-verb table or the node's any-verb slot (a value remembered from an earlier request - a cache keyed by less than path and verb - serves a binding this request does not match)",
		Run: ruleMatchSource})
}

func ruleMatchSource(r *Run) {
	p := r.P
	methodsF := p.StructField("path", "methods")
	chain := map[string]bool{nMatch: true, nPathMatch: true, nPathSearch: true}
	fns := []*ssa.Function{p.Method("state", "match"), p.Method("path", "match"), p.Method("path", "search")}
	for i, name := range []string{"(*state).match", "(*path).match", "(*path).search"} {
		fn := fns[i]
		if fn == nil {
			r.missing("method " + name)
			continue
		}
		// a memo of earlier results is as good as the walk when its key is made of this request's path and verb
		fullKey := func(key ssa.Value) bool {
			if key == nil || len(fn.Params) < 3 {
				return false
			}
			return p.derivedFromKey(key, fn.Params[1]) && p.derivedFromKey(key, fn.Params[2])
		}
		bad := ""
		var pos token.Pos = fn.Pos()
		n := 0
		p.eachInstrRegion(fn, func(g *ssa.Function, in ssa.Instruction) {
			rt, ok := in.(*ssa.Return)
			if !ok || g != fn || len(rt.Results) == 0 {
				return
			}
			for _, o := range p.origins(rt.Results[0], originOpts{throughAssert: true, throughConvert: true}) {
				n++
				switch x := o.(type) {
				case *ssa.Const:
					continue
				case *ssa.Call:
					if chain[calleeName(x)] {
						continue
					}
					bad = "the result of " + shortName(calleeName(x))
				case *ssa.Extract:
					if c, ok := x.Tuple.(*ssa.Call); ok {
						if chain[calleeName(c)] && x.Index == 0 {
							continue
						}
						if calleeName(c) == "(*sync.Map).Load" && len(c.Call.Args) == 2 && fullKey(c.Call.Args[1]) {
							continue
						}
						bad = "the result of " + shortName(calleeName(c))
						if calleeName(c) == "(*sync.Map).Load" {
							bad += " under a key that is not made of both the request's path and its verb"
						}
					} else if lk, ok := x.Tuple.(*ssa.Lookup); ok && x.Index == 0 && (p.lookupOfField(lk, methodsF) || fullKey(lk.Index)) {
						continue
					} else {
						bad = describeValue(o)
					}
				case *ssa.Lookup:
					if p.lookupOfField(x, methodsF) || fullKey(x.Index) {
						continue
					}
					bad = "a lookup in another table than path.methods, under a key that is not made of both the request's path and its verb"
				default:
					// the node's own "any verb" slot (path.methodAll): a field of the trie node reached by the walk
					if f := loadedField(o); f != nil && p.fieldOwner(f) == "path" {
						continue
					}
					bad = describeValue(o)
				}
				pos = rt.Pos()
			}
		})
		if n == 0 {
			r.undecided(name+"/method-source", fn.Pos(), "no returned method value found")
			continue
		}
		r.check(bad == "", name+"/method-source", pos, "the returned method is nil, the next matcher's result, or an entry of the reached node (per-verb table / any-verb slot)",
			fmt.Sprintf("%s can return %s as the matched method: it does not come from walking the trie with this request's path and verb, so a request can be dispatched to a binding it does not match", name, bad))
	}
}

// lookupOfField: lk indexes the map loaded from field f.
func (p *Program) lookupOfField(lk *ssa.Lookup, f *types.Var) bool {
	if f == nil {
		return false
	}
	for _, o := range p.origins(lk.X, originOpts{}) {
		if loadsField(o, f) {
			return true
		}
	}
	return false
}

func init() {
	register(&Rule{Name: "FD-LOCALISER", Floor: 1,
		Doc: "a function that maps a field descriptor of another registration onto a message's own descriptor (a function of one protoreflect.Message and one FieldDescriptor returning a FieldDescriptor) returns the descriptor it was given or the message's field found under a wire-stable identity of that descriptor (ByNumber(fd.Number()), ByName(fd.Name()), ...): a positional lookup (Fields().Get(fd.Index())) picks another field whenever a backend declares the same fields in another order, and the path value lands in the wrong field",
		Run: ruleFDLocaliser})
}

func ruleFDLocaliser(r *Run) {
	p := r.P
	isType := func(t types.Type, name string) bool {
		n := namedOf(t)
		return n != nil && n.Obj().Pkg() != nil && n.Obj().Pkg().Path() == protoreflect && n.Obj().Name() == name
	}
	localOnly := func(v ssa.Value, target *ssa.Parameter) bool {
		os := p.origins(v, originOpts{local: true})
		for _, o := range os {
			if o != ssa.Value(target) {
				return false
			}
		}
		return len(os) > 0
	}
	keyOf := map[string]string{"ByNumber": "Number", "ByName": "Name", "ByJSONName": "JSONName", "ByTextName": "TextName"}
	n := 0
	for _, fn := range p.ModuleFuncs() {
		sig := fn.Signature
		if fn.Parent() != nil || len(fn.Blocks) == 0 || sig.Recv() != nil || sig.Params().Len() != 2 || sig.Results().Len() != 1 {
			continue
		}
		if !isType(sig.Results().At(0).Type(), "FieldDescriptor") {
			continue
		}
		var m, fd *ssa.Parameter
		for _, par := range fn.Params {
			switch {
			case isType(par.Type(), "Message") && m == nil:
				m = par
			case isType(par.Type(), "FieldDescriptor") && fd == nil:
				fd = par
			}
		}
		if m == nil || fd == nil {
			continue
		}
		n++
		bad := ""
		var pos token.Pos = fn.Pos()
		eachInstr(fn, func(in ssa.Instruction) {
			rt, ok := in.(*ssa.Return)
			if !ok {
				return
			}
			for _, o := range p.origins(rt.Results[0], originOpts{local: true}) {
				switch x := o.(type) {
				case *ssa.Parameter:
					if x == fd {
						continue
					}
					bad = "parameter " + x.Name()
				case *ssa.Call:
					bn, isBN := isInvokeNamed(x, "ByNumber", "ByName", "ByJSONName", "ByTextName")
					if !isBN {
						if g, isGet := isInvokeNamed(x, "Get"); isGet {
							_ = g
							bad = "Fields().Get(i): the field at a declaration position"
						} else {
							bad = "the result of " + shortName(calleeName(x))
						}
						break
					}
					fromM := false
					for _, fo := range p.origins(bn.Common().Value, originOpts{local: true}) {
						if fc, isF := isInvokeNamed(fo, "Fields"); isF {
							for _, do := range p.origins(fc.Common().Value, originOpts{local: true}) {
								if dc, isD := isInvokeNamed(do, "Descriptor"); isD && localOnly(dc.Common().Value, m) {
									fromM = true
								}
							}
						}
					}
					if !fromM {
						bad = "a field looked up on another descriptor than the message's own"
						break
					}
					keyed := false
					if len(bn.Common().Args) == 1 {
						for _, ko := range p.origins(bn.Common().Args[0], originOpts{throughConvert: true, local: true}) {
							if kc, isK := isInvokeNamed(ko, keyOf[bn.Common().Method.Name()]); isK && localOnly(kc.Common().Value, fd) {
								keyed = true
							}
						}
					}
					if !keyed {
						bad = fmt.Sprintf("%s under a key that is not the given descriptor's own %s()", bn.Common().Method.Name(), keyOf[bn.Common().Method.Name()])
					}
				default:
					bad = describeValue(o)
				}
				if bad != "" {
					pos = rt.Pos()
				}
			}
		})
		r.check(bad == "", shortFunc(fn)+"/wire-stable-key", pos, "returns the given descriptor or the message's field with the same number/name",
			fmt.Sprintf("%s can return %s: a descriptor of another registration is mapped onto a different field of the message", shortFunc(fn), bad))
	}
	if n == 0 {
		r.undecided("localiser", token.NoPos, "no function (protoreflect.Message, FieldDescriptor) FieldDescriptor found in the module")
	}
}

func init() {
	register(&Rule{Name: "FWD-EOF-FILTERED", Floor: 2,
		Doc: "in the stream forwarder an error produced by a RecvMsg/SendMsg inside a pump loop (where io.EOF is the regular way out: the peer finished) is returned to the front client only under the end-of-stream filter - a predicate that answers false for io.EOF, or a direct != io.EOF test: returned under a bare != nil test, the io.EOF that grpc-go's SendMsg yields once the backend has completed becomes status Unknown 'EOF' for an RPC the backend answered with OK",
		Run: ruleFwdEOFFiltered})
}

// blockInLoop: b lies on a cycle of its function's control-flow graph.
func blockInLoop(b *ssa.BasicBlock) bool {
	seen := map[*ssa.BasicBlock]bool{}
	var stack []*ssa.BasicBlock
	stack = append(stack, b.Succs...)
	for len(stack) > 0 {
		x := stack[len(stack)-1]
		stack = stack[:len(stack)-1]
		if x == b {
			return true
		}
		if seen[x] {
			continue
		}
		seen[x] = true
		stack = append(stack, x.Succs...)
	}
	return false
}

// filtersEOF: module predicate f(err) bool that answers false when err == io.EOF (on some return reached under that identity).
func (p *Program) filtersEOF(fn *ssa.Function) bool {
	if fn == nil || len(fn.Params) != 1 || !isErrorType(fn.Params[0].Type()) || len(fn.Blocks) == 0 {
		return false
	}
	par := fn.Params[0]
	isEOFTest := func(g guardFact) bool {
		x, y, op, ok := g.cmp()
		if !ok || op != token.EQL {
			return false
		}
		if y == ssa.Value(par) {
			x, y = y, x
		}
		return x == ssa.Value(par) && isIOEOF(y)
	}
	// some edge that establishes err == io.EOF leads to a return that can answer false
	mayFalse := func(rt *ssa.Return) bool {
		for _, o := range p.origins(rt.Results[0], originOpts{}) {
			if c, isC := o.(*ssa.Const); isC && c.Value != nil && c.Value.String() == "true" {
				continue
			}
			return true
		}
		return false
	}
	found := false
	for _, b := range fn.Blocks {
		ifi := blockIf(b)
		if ifi == nil {
			continue
		}
		for succ := 0; succ < 2; succ++ {
			fs, never := p.factsWhen(ifi.Cond, succ == 0)
			if never {
				continue
			}
			est := false
			for _, f := range fs {
				if f.If == nil {
					f.If = ifi
				}
				if isEOFTest(f) {
					est = true
				}
			}
			if !est {
				continue
			}
			seen := map[*ssa.BasicBlock]bool{}
			stack := []*ssa.BasicBlock{b.Succs[succ]}
			for len(stack) > 0 {
				x := stack[len(stack)-1]
				stack = stack[:len(stack)-1]
				if seen[x] {
					continue
				}
				seen[x] = true
				if len(x.Instrs) > 0 {
					if rt, ok := x.Instrs[len(x.Instrs)-1].(*ssa.Return); ok && len(rt.Results) == 1 && mayFalse(rt) {
						found = true
					}
				}
				stack = append(stack, x.Succs...)
			}
		}
	}
	return found
}

func ruleFwdEOFFiltered(r *Run) {
	p := r.P
	n := 0
	for _, g := range p.proxyClosures() {
		ei := errResultIndex(g)
		if ei < 0 || p.isTransparent(g) {
			continue // a helper's result is judged where the forwarder returns it
		}
		site := 0
		eachInstr(g, func(in ssa.Instruction) {
			rt, ok := in.(*ssa.Return)
			if !ok {
				return
			}
			val := rt.Results[ei]
			var pumped *ssa.Call
			for _, o := range p.origins(val, originOpts{}) {
				var c *ssa.Call
				switch x := o.(type) {
				case *ssa.Call:
					c = x
				case *ssa.Extract:
					c, _ = x.Tuple.(*ssa.Call)
				}
				if c == nil || !c.Common().IsInvoke() {
					continue
				}
				if m := c.Common().Method.Name(); (m == "RecvMsg" || m == "SendMsg") && blockInLoop(c.Block()) {
					pumped = c
				}
			}
			if pumped == nil {
				return
			}
			n++
			site++
			key := fmt.Sprintf("%s/pump-error-return#%d", shortFunc(g), site)
			same := func(v ssa.Value) bool { return v == val || p.sameOrigins(v, val) }
			filtered := p.guardedInEveryContext(rt.Block(), func(f guardFact) bool {
				if c, ok := f.Cond.(*ssa.Call); ok && f.True {
					if callee := c.Call.StaticCallee(); callee != nil && !c.Call.IsInvoke() && len(c.Call.Args) == 1 && same(c.Call.Args[0]) && p.filtersEOF(callee) {
						return true
					}
					return false
				}
				x, y, op, ok := f.cmp()
				if !ok || op != token.NEQ {
					return false
				}
				return (same(x) && isIOEOF(y)) || (same(y) && isIOEOF(x))
			})
			r.check(filtered, key, rt.Pos(), "the pump's error is returned only where the end-of-stream filter let it through",
				fmt.Sprintf("the forwarder returns the error of %s (made in a pump loop) without passing it through the end-of-stream filter: io.EOF - the peer simply finished - reaches the front client as status Unknown", shortName(calleeName(pumped))))
		})
	}
	if n == 0 {
		r.undecided("stream forwarder", token.NoPos, "no return of a pump error found in the forwarder closures")
	}
}

func init() {
	register(&Rule{Name: "STATS-JOINED", Floor: 3,
		Doc: "the serve function emits stats.End only after waiting on the stream's WaitGroup; so that End is the last event of the RPC, every method of that stream type that reports a stats event registers with the WaitGroup before the event (wg.Add dominates it) and leaves it by a deferred Done: an unregistered RecvMsg still decoding on another goroutine reports its InPayload after End",
		Run: ruleStatsJoined})
}

func ruleStatsJoined(r *Run) {
	p := r.P
	isWG := func(t types.Type) bool {
		n := namedOf(t)
		return n != nil && n.Obj().Pkg() != nil && n.Obj().Pkg().Path() == "sync" && n.Obj().Name() == "WaitGroup"
	}
	// wgField: the WaitGroup field a sync.WaitGroup method call is made on
	wgField := func(c ssa.CallInstruction, method string) *types.Var {
		if calleeName(c) != "(*sync.WaitGroup)."+method || len(c.Common().Args) == 0 {
			return nil
		}
		for _, o := range p.origins(c.Common().Args[0], originOpts{}) {
			if fa, ok := o.(*ssa.FieldAddr); ok && isWG(fieldOfAddr(fa).Type()) {
				return fieldOfAddr(fa)
			}
		}
		return nil
	}
	// the WaitGroup fields some serve function waits on before it emits End
	joined := map[*types.Var]bool{}
	for _, name := range []string{"serveGRPC", "serveHTTP"} {
		fn := p.Method("Mux", name)
		if fn == nil {
			continue
		}
		p.eachInstrRegion(fn, func(_ *ssa.Function, in ssa.Instruction) {
			if c, ok := in.(ssa.CallInstruction); ok {
				if f := wgField(c, "Wait"); f != nil {
					joined[f] = true
				}
			}
		})
	}
	if len(joined) == 0 {
		r.undecided("joined WaitGroup", token.NoPos, "no serve function waits on a stream's WaitGroup")
		return
	}
	n := 0
	for f := range joined {
		owner := p.fieldOwner(f)
		for _, fn := range p.ModuleFuncs() {
			if fn.Parent() != nil || fn.Signature.Recv() == nil || len(fn.Blocks) == 0 {
				continue
			}
			if nt := namedOf(fn.Signature.Recv().Type()); nt == nil || nt.Obj().Name() != owner {
				continue
			}
			var events []ssa.Instruction
			p.eachInstrRegion(fn, func(g *ssa.Function, in ssa.Instruction) {
				if ev, _ := statsEvent(in); ev != "" && g == fn {
					events = append(events, in)
				}
			})
			// events reported by helpers of the method count at the call of the helper
			eachInstr(fn, func(in ssa.Instruction) {
				if c, ok := in.(ssa.CallInstruction); ok {
					if callee := c.Common().StaticCallee(); callee != nil && p.isTransparent(callee) && p.callMay(c, func(x ssa.Instruction) bool { ev, _ := statsEvent(x); return ev != "" }) {
						events = append(events, in)
					}
				}
			})
			if len(events) == 0 {
				continue
			}
			var adds, dones []ssa.Instruction
			eachInstr(fn, func(in ssa.Instruction) {
				c, ok := in.(ssa.CallInstruction)
				if !ok {
					return
				}
				if wgField(c, "Add") == f {
					adds = append(adds, in)
				}
				if _, isDefer := in.(*ssa.Defer); isDefer && wgField(c, "Done") == f {
					dones = append(dones, in)
				}
			})
			n++
			key := shortFunc(fn) + "/registered-before-events"
			good := true
			for _, ev := range events {
				okAdd, okDone := false, false
				for _, a := range adds {
					okAdd = okAdd || instrDominates(a, ev)
				}
				for _, d := range dones {
					okDone = okDone || instrDominates(d, ev)
				}
				good = good && okAdd && okDone
			}
			r.check(good, key, fn.Pos(), fmt.Sprintf("%s.Add(1) and a deferred Done dominate every stats event of the method: the serve function's Wait (and so End) comes after them", f.Name()),
				fmt.Sprintf("%s reports a stats event without being registered with %s.%s (Add before the event, deferred Done): the serve function waits on that WaitGroup before it emits stats.End, so an event of a call still running on another goroutine arrives after End", shortFunc(fn), owner, f.Name()))
		}
	}
	if n == 0 {
		r.undecided("stream methods", token.NoPos, "no method of a joined stream type reports a stats event")
	}
}

func init() {
	register(&Rule{Name: "POOL-SELF-TERMINAL", Floor: 1,
		Doc: "a method that returns its own receiver to a sync.Pool in mid-use (gzipReader.Read on io.EOF) reports a non-nil error on every return after that Put: a nil error tells the caller to call again on an object that is already back in the pool - the next call puts it a second time and two requests end up sharing one reader",
		Run: rulePoolSelfTerminal})
}

func rulePoolSelfTerminal(r *Run) {
	p := r.P
	n := 0
	for _, fn := range p.ModuleFuncs() {
		if fn.Parent() != nil || fn.Signature.Recv() == nil || len(fn.Blocks) == 0 {
			continue
		}
		ei := errResultIndex(fn)
		if ei < 0 {
			continue
		}
		recv := fn.Params[0]
		site := 0
		eachInstr(fn, func(in ssa.Instruction) {
			c, ok := in.(*ssa.Call)
			if !ok {
				return
			}
			// (*sync.Pool).Put itself or a thin put-accessor (z.release()); the raw Put inside an accessor is
			// judged at the accessor's call sites
			put, isPut := p.poolPut(c)
			if !isPut || put == nil {
				return
			}
			if _, puts := p.poolAccessors(); calleeName(c) == "(*sync.Pool).Put" {
				if acc, isAcc := puts[fn]; isAcc && acc.raw == ssa.CallInstruction(c) {
					return
				}
			}
			self := false
			for _, o := range p.origins(put, originOpts{local: true}) {
				if o == ssa.Value(recv) {
					self = true
				}
			}
			if !self {
				return
			}
			n++
			site++
			key := fmt.Sprintf("%s/terminal-after-self-put#%d", shortFunc(fn), site)
			putBlock := c.Block()
			after := func(b *ssa.BasicBlock) bool { return b != nil && (b == putBlock || putBlock.Dominates(b)) }
			bad := false
			var pos token.Pos = c.Pos()
			eachInstr(fn, func(x ssa.Instruction) {
				rt, ok := x.(*ssa.Return)
				if !ok {
					return
				}
				for _, l := range p.guardedLeaves(rt.Results[ei]) {
					where := l.pred
					if where == nil {
						where = rt.Block()
					}
					if !after(where) {
						continue
					}
					if isNilConst(l.v) {
						bad = true
						pos = rt.Pos()
					}
				}
			})
			r.check(!bad, key, pos, "every return after the receiver went back to the pool carries a non-nil error (the caller stops using it)",
				fmt.Sprintf("%s puts its own receiver into the pool and can then return a nil error: the caller calls again on a pooled object, which is handed to another request in the meantime (and put a second time)", shortFunc(fn)))
		})
	}
	if n == 0 {
		r.undecided("self-releasing methods", token.NoPos, "no method puts its own receiver into a sync.Pool outside a defer")
	}
}

func init() {
	register(&Rule{Name: "OWS-BEFORE-SEP", Floor: 2,
		Doc: "in the Accept / Accept-Encoding parser every test for a separator or parameter name at the head of the remaining input (strings.HasPrefix(s, \";\"), \",\", \"q=\") is made on input from which optional whitespace was just skipped (RFC 7231 allows OWS around ';' and ','): tested on unskipped input, 'text/html ;q=0.9, application/json' loses its weight and everything after it on the line",
		Run: ruleOWSBeforeSep})
}

// isSpaceSkipper: a call that returns its string argument without leading whitespace.
func (p *Program) isSpaceSkipper(c *ssa.Call) bool {
	switch calleeName(c) {
	case "strings.TrimSpace", "strings.TrimLeft", "strings.TrimLeftFunc", "strings.Trim":
		return true
	}
	callee := c.Call.StaticCallee()
	if callee == nil || c.Call.IsInvoke() || !p.InModule(callee) || len(callee.Params) != 1 || callee.Signature.Results().Len() != 1 {
		return false
	}
	// func(s string) string returning s[i:] / a skipper's result, with a scan over a space class in between
	sliceOfParam, scans := false, false
	p.eachInstrRegion(callee, func(_ *ssa.Function, in ssa.Instruction) {
		switch x := in.(type) {
		case *ssa.Return:
			for _, o := range p.origins(x.Results[0], originOpts{local: true}) {
				if sl, ok := o.(*ssa.Slice); ok && sl.X == ssa.Value(callee.Params[0]) && sl.Low != nil && sl.High == nil {
					sliceOfParam = true
				}
				if cc, ok := o.(*ssa.Call); ok && cc != c && p.isSpaceSkipperShallow(cc) {
					sliceOfParam = true
					scans = true
				}
			}
		case *ssa.BinOp:
			// octetTypes[s[i]] & isSpace, or s[i] == ' '
			if x.Op == token.AND || x.Op == token.EQL || x.Op == token.NEQ {
				for _, opnd := range []ssa.Value{x.X, x.Y} {
					if k, ok := constInt(opnd); ok && (k == ' ' || k == '\t' || (x.Op == token.AND && k != 0)) {
						scans = true
					}
				}
			}
		case *ssa.Call:
			if n := calleeName(x); n == "unicode.IsSpace" {
				scans = true
			}
		}
	})
	return sliceOfParam && scans
}

func (p *Program) isSpaceSkipperShallow(c *ssa.Call) bool {
	switch calleeName(c) {
	case "strings.TrimSpace", "strings.TrimLeft", "strings.TrimLeftFunc", "strings.Trim":
		return true
	}
	return false
}

func ruleOWSBeforeSep(r *Run) {
	p := r.P
	// the header parser is whatever the two negotiators call (parseAccept today): all head tests of their regions
	seen := map[ssa.Instruction]bool{}
	n := 0
	for _, name := range []string{"negotiateContentType", "negotiateContentEncoding"} {
		root := p.Func(name)
		if root == nil {
			r.missing("func " + name)
			continue
		}
		p.eachInstrRegion(root, func(fn *ssa.Function, in ssa.Instruction) {
			c, ok := in.(*ssa.Call)
			if !ok || (calleeName(c) != "strings.HasPrefix" && calleeName(c) != "strings.CutPrefix") || seen[in] {
				return
			}
			seen[in] = true
			sep, isConst := constString(c.Call.Args[1])
			// list and parameter separators and parameter names ("q="): where RFC 7231 allows OWS; a test inside a
			// token (the "." of a quality value) is not one
			if !isConst || !(sep == ";" || sep == "," || strings.HasSuffix(sep, "=")) {
				return
			}
			n++
			key := fmt.Sprintf("%s/head-test:%q", shortFunc(fn), sep)
			bad := ""
			for _, o := range p.origins(c.Call.Args[0], originOpts{local: true}) {
				if sc, ok := o.(*ssa.Call); ok && p.isSpaceSkipper(sc) {
					continue
				}
				bad = describeValue(o)
				if n := sourceCall(o); n != "" {
					bad = "the result of " + shortName(n)
				}
			}
			r.check(bad == "", key, c.Pos(), "tested on input whose leading optional whitespace was just skipped",
				fmt.Sprintf("the test for %q is made on %s, not on input from which optional whitespace was skipped: a header with a space before %q is cut short there", sep, bad, sep))
		})
	}
	if n == 0 {
		r.undecided("accept-parser/head-tests", token.NoPos, "no strings.HasPrefix test of the remaining input found under negotiateContentType / negotiateContentEncoding")
	}
}
