package main

import (
	"fmt"
	"go/token"
	"go/types"
	"strings"

	"golang.org/x/tools/go/ssa"
)

// Rules added after the fourth round of seeded changes (DESIGN.md section 10.6).

func init() {
	register(&Rule{Name: "QUOTE-ESCAPES", Floor: 1,
		Doc: "URL text that is turned into a JSON string for protojson (well-known types of parseParam) goes through an escaping quoter (strconv.AppendQuote/Quote or json.Marshal): wrapping it in bare quotes lets backslashes and quotes in the URL act as JSON escapes / string terminators",
		Run: ruleQuoteEscapes})
	register(&Rule{Name: "SUB-LOW", Floor: 1,
		Doc: "on request paths a slice expression whose low bound is a difference of two non-constant values (x[a-b:]) runs only where a >= b was established (a negative low bound panics)",
		Run: ruleSubLow})
	register(&Rule{Name: "COMPRESS-FLAG", Floor: 2,
		Doc: "the gRPC frame reader decompresses a message exactly when that message's own compressed-flag byte is set (grpc-go never compresses an empty message of a gzip stream: decompressing on 'a compressor was negotiated' turns it into a clean EOF and drops the rest of the stream); and the writer compares the send limit with the encoded size before it is replaced by the compressed length",
		Run: ruleCompressFlag})
	register(&Rule{Name: "READ-FAIL-NONNIL", Floor: 2,
		Doc: "where a transport read of a stream's RecvMsg failed, every return yields an error that is certainly non-nil (the read error itself, a freshly built error, a sentinel): an error computed from something else (status.FromContextError(ctx.Err()).Err()) can be nil and hands the handler a phantom empty message",
		Run: ruleReadFailNonNil})
}

func ruleQuoteEscapes(r *Run) {
	p := r.P
	pp := p.Func("parseParam")
	if pp == nil {
		r.missing("func parseParam")
		return
	}
	// the values handed to protojson.Unmarshal in parseParam's region: each comes (through conversions) from an
	// escaping quoter, or is the raw parameter text itself (numbers, bools, enums: no string context)
	n := 0
	escapers := map[string]bool{"strconv.AppendQuote": true, "strconv.Quote": true, "strconv.AppendQuoteToASCII": true, "encoding/json.Marshal": true}
	var quoters []*ssa.Function
	p.eachInstrR(pp, func(in ssa.Instruction) {
		c, ok := in.(*ssa.Call)
		if !ok {
			return
		}
		callee := c.Call.StaticCallee()
		if callee == nil || !p.InModule(callee) || c.Call.IsInvoke() || callee == pp {
			return
		}
		// a module function []byte -> []byte applied to the raw text whose result is unmarshalled: a quoter
		sig := callee.Signature
		if sig.Params().Len() != 1 || sig.Results().Len() != 1 || typeString(sig.Params().At(0).Type()) != "[]byte" || typeString(sig.Results().At(0).Type()) != "[]byte" {
			return
		}
		for _, q := range quoters {
			if q == callee {
				return
			}
		}
		quoters = append(quoters, callee)
	})
	for _, q := range quoters {
		n++
		escapes := false
		addsQuotes := false
		for _, g := range p.staticReach(q) {
			eachInstr(g, func(in ssa.Instruction) {
				if c, ok := in.(ssa.CallInstruction); ok && escapers[calleeName(c)] {
					escapes = true
				}
				// appends or stores of the '"' byte
				for _, op := range in.Operands(nil) {
					if op == nil || *op == nil {
						continue
					}
					if k, ok := constInt(*op); ok && k == '"' {
						if _, isCmp := in.(*ssa.BinOp); !isCmp {
							addsQuotes = true
						}
					}
				}
			})
		}
		key := shortFunc(q) + "/escapes"
		switch {
		case escapes:
			r.ok(key, q.Pos(), "the text is quoted by an escaping quoter")
		case addsQuotes:
			r.bad(key, q.Pos(), "%s wraps the URL text in double-quote bytes without escaping it (no strconv.AppendQuote/Quote, no json.Marshal): a backslash or an interior quote in a path/query value is then read by protojson as a JSON escape or the end of the string (a backslash-n in the URL becomes a newline, valid text with a quote is refused, an escaped digit is accepted as a duration)", shortFunc(q))
		default:
			r.info(key, q.Pos(), "[]byte -> []byte helper of parseParam that neither escapes nor adds quotes: not a quoter")
			n--
		}
	}
	if n == 0 {
		r.undecided("parseParam/quoter", pp.Pos(), "no quoting helper found in parseParam's region")
	}
}

func ruleSubLow(r *Run) {
	p := r.P
	reach := p.reachRequest()
	n := 0
	site := map[*ssa.Function]int{}
	for _, fn := range sortedFuncs(reach) {
		fn := fn
		eachInstr(fn, func(in ssa.Instruction) {
			sl, ok := in.(*ssa.Slice)
			if !ok || sl.Low == nil {
				return
			}
			bo, ok := p.stripConvAll(sl.Low).(*ssa.BinOp)
			if !ok || bo.Op != token.SUB {
				return
			}
			if _, isC := constInt(bo.X); isC {
				return
			}
			if _, isC := constInt(bo.Y); isC {
				return // x[n-1:] with a constant: decided by the length rules (SLICE-CAP), not here
			}
			n++
			site[fn]++
			key := fmt.Sprintf("%s/low-bound-difference#%d", shortFunc(fn), site[fn])
			same := func(a, b ssa.Value) bool {
				return a == b || p.sameValue(a, b) || p.sameExpr(a, b, 0)
			}
			ok2 := p.guardedInEveryContext(sl.Block(), func(g guardFact) bool {
				x, y, op, ok := g.cmp()
				if !ok {
					return false
				}
				x, y = p.stripConvAll(x), p.stripConvAll(y)
				switch op {
				case token.GTR, token.GEQ:
					return same(x, bo.X) && same(y, bo.Y)
				case token.LSS, token.LEQ:
					return same(x, bo.Y) && same(y, bo.X)
				}
				return false
			})
			r.check(ok2, key, in.Pos(), "the difference is known to be non-negative where it is used as the low bound",
				"the low bound of this slice is a difference a-b of two variables that is not known to be non-negative here (no dominating a > b / a >= b test): when b exceeds a the request panics with slice bounds out of range")
		})
	}
	if n == 0 {
		r.info("request paths", token.NoPos, "no slice with a low bound a-b of two non-constant values on request paths: rule has no instance")
		r.ok("request-paths/no-difference-low-bounds", token.NoPos, "no x[a-b:] with non-constant a, b")
	}
}

func ruleCompressFlag(r *Run) {
	p := r.P
	recv, send := p.Method("streamGRPC", "RecvMsg"), p.Method("streamGRPC", "SendMsg")
	if recv == nil || send == nil {
		r.missing("methods (*streamGRPC).RecvMsg / SendMsg")
		return
	}
	// reader: the decompression (a call of Compressor.Decompress, directly or in a helper) is reached only where
	// byte 0 of the frame header equals 1
	var dec ssa.Instruction
	p.eachInstrR(recv, func(in ssa.Instruction) {
		c, ok := in.(ssa.CallInstruction)
		if !ok || in.Parent() != recv {
			return
		}
		isDec := c.Common().IsInvoke() && c.Common().Method.Name() == "Decompress"
		if !isDec {
			isDec = p.callMay(c, func(x ssa.Instruction) bool {
				cc, ok := x.(ssa.CallInstruction)
				return ok && cc.Common().IsInvoke() && cc.Common().Method.Name() == "Decompress"
			})
		}
		if isDec {
			dec = in
		}
	})
	if dec == nil {
		r.undecided("(*streamGRPC).RecvMsg/decompress", recv.Pos(), "no decompression found in RecvMsg")
	} else {
		flagFact := func(g guardFact) bool {
			x, y, op, ok := g.cmp()
			if !ok || op != token.EQL {
				return false
			}
			k, isC := constInt(y)
			if !isC || k != 1 {
				return false
			}
			for _, o := range p.origins(x, originOpts{local: true}) {
				if u, ok := o.(*ssa.UnOp); ok && u.Op == token.MUL {
					if ia, ok := u.X.(*ssa.IndexAddr); ok {
						if i, isC := constInt(ia.Index); isC && i == 0 {
							return true
						}
					}
				}
			}
			return false
		}
		r.check(p.guardedInEveryContext(dec.Block(), flagFact), "(*streamGRPC).RecvMsg/decompress-iff-flag", dec.Pos(),
			"a message is decompressed only where its own compressed-flag byte is 1",
			"RecvMsg decompresses without testing this message's compressed flag (byte 0 of the frame header == 1): an uncompressed frame on a stream that negotiated a compressor (grpc-go sends empty messages uncompressed) is gunzipped into io.EOF, the handler sees a clean end of stream and the rest of the client's messages are dropped")
	}
	// writer: the comparison with the limit uses the encoded length, not the compressed one
	var cmpd []limitCompare
	for _, lc := range p.limitCompares(send) {
		if re := p.refusalEdge(lc.ifi); re >= 0 {
			cmpd = append(cmpd, lc)
		}
	}
	if len(cmpd) == 0 {
		r.undecided("(*streamGRPC).SendMsg/limit-on-encoded-size", send.Pos(), "no refusing comparison with a size limit found in SendMsg")
		return
	}
	for i, lc := range cmpd {
		bad := ""
		for _, o := range p.origins(lc.other, defaultOrigin) {
			// through len(b) - k
			var walk func(v ssa.Value, d int)
			walk = func(v ssa.Value, d int) {
				if d > 6 {
					return
				}
				switch x := v.(type) {
				case *ssa.BinOp:
					walk(x.X, d+1)
				case *ssa.Call:
					n := calleeName(x)
					if n == "(*bytes.Buffer).Len" {
						bad = "the length of the compression buffer (buf.Len())"
					}
					if n == "builtin.len" {
						for _, lo := range p.origins(x.Call.Args[0], originOpts{throughSlice: true, throughAppend: true}) {
							if c, ok := lo.(*ssa.Call); ok && calleeName(c) == "(*bytes.Buffer).Bytes" {
								bad = "the length of the compressed bytes"
							}
						}
					}
				case *ssa.Convert:
					walk(x.X, d+1)
				}
			}
			walk(o, 0)
		}
		r.check(bad == "", fmt.Sprintf("(*streamGRPC).SendMsg/limit-on-encoded-size#%d", i+1), lc.ifi.Pos(), "the send limit is compared with the encoded message size",
			"the value compared with the message size limit in SendMsg can be "+bad+": with a negotiated compressor an incompressible reply just under the limit is refused and a compressible one over it is let through (the limit is on the encoded size)")
	}
}

func ruleReadFailNonNil(r *Run) {
	p := r.P
	n := 0
	for _, typ := range []string{"streamGRPC", "streamHTTP", "streamWS"} {
		fn := p.Method(typ, "RecvMsg")
		if fn == nil {
			continue
		}
		site := 0
		for _, node := range p.rootedRegion(fn) {
			node := node
			eachInstr(node.fn, func(in ssa.Instruction) {
				c, ok := in.(*ssa.Call)
				if !ok {
					return
				}
				cn := calleeName(c)
				isRead := cn == "io.ReadFull" || cn == "io.ReadAtLeast" || (c.Call.IsInvoke() && c.Call.Method.Name() == "Read" && c.Call.Method.Pkg() != nil && c.Call.Method.Pkg().Path() == "io") ||
					strings.HasPrefix(cn, "github.com/gobwas/ws/wsutil.Read")
				if !isRead {
					return
				}
				sig := c.Call.Signature()
				ei := sig.Results().Len() - 1
				if ei < 0 || !isErrorType(sig.Results().At(ei).Type()) {
					return
				}
				var errv ssa.Value
				if sig.Results().Len() == 1 {
					errv = c
				} else {
					errv = extractOf(c, ei)
				}
				if errv == nil {
					return
				}
				fe := errResultIndex(node.fn)
				if fe < 0 {
					return
				}
				// returns that run only where this read's error is non-nil
				eachInstr(node.fn, func(x ssa.Instruction) {
					rt, ok := x.(*ssa.Return)
					if !ok {
						return
					}
					failed := false
					for _, g := range guardsOf(rt.Block()) {
						a, b, op, ok := g.cmp()
						if ok && op == token.NEQ && isNilConst(b) && (a == errv || p.sameValue(a, errv)) {
							failed = true
						}
					}
					if !failed {
						return
					}
					site++
					n++
					key := fmt.Sprintf("%s/after-failed-read#%d", shortFunc(fn), site)
					bad := ""
					for _, o := range p.origins(rt.Results[fe], originOpts{}) {
						switch y := o.(type) {
						case *ssa.Const:
							if y.Value == nil {
								bad = "the nil constant"
							}
							continue
						case *ssa.Call:
							cn := calleeName(y)
							if cn == "fmt.Errorf" || cn == "errors.New" || strings.HasSuffix(cn, "status.Errorf") || strings.HasSuffix(cn, "status.Error") {
								continue
							}
							if y == c {
								continue
							}
							bad = "the result of " + shortName(cn) + " (nil for some inputs)"
						case *ssa.Extract:
							if y == errv || y.Tuple == ssa.Value(c) {
								continue
							}
							bad = describeValue(o)
						case *ssa.MakeInterface, *ssa.Alloc:
							continue
						case *ssa.UnOp:
							if _, isG := y.X.(*ssa.Global); isG && y.Op == token.MUL {
								continue // sentinel
							}
							bad = describeValue(o)
						default:
							if o == errv {
								continue
							}
							bad = describeValue(o)
						}
					}
					r.check(bad == "", key, rt.Pos(), "the error returned after the failed read is the read error or a freshly built one",
						"after a failed transport read RecvMsg can return "+bad+" as its error: when that is nil the handler receives a phantom empty message instead of the failure (e.g. a client cancel observed before the context is cancelled)")
				})
			})
		}
	}
	if n == 0 {
		r.undecided("RecvMsg/failed-read-returns", token.NoPos, "no return behind a failed transport read found in the streams' RecvMsg")
	}
}

var _ = types.Typ
