// larkcheck decides structural necessary conditions of the larking properties
// C01..C20 from /repo's source (AST, types, SSA, CFG, call graph). It never
// runs larking code. See /verif/DESIGN.md.
package main

import (
	"flag"
	"fmt"
	"os"
	"path/filepath"
	"runtime/debug"
	"sort"
	"strconv"
	"strings"
	"time"
)

var (
	flagProperty = flag.String("property", "", "property id (C01..C20)")
	flagTier     = flag.String("tier", "", "quick | thorough (default: $VERIF_TIER or quick)")
	flagRepo     = flag.String("repo", "/repo", "repository root")
	flagVerif    = flag.String("verif", "/verif", "verification root (evidence, replays, known findings)")
	flagReplay   = flag.String("replay", "", "re-diagnose the obligation stored in a replay file")
	flagControl  = flag.String("control", "", "run a single overlay control by id (internal)")
	flagList     = flag.Bool("list", false, "list properties, rules and controls")
	flagVerbose  = flag.Bool("v", false, "print every obligation")
	flagNoCtl    = flag.Bool("nocontrols", false, "skip positive controls")
	flagDump     = flag.String("dump", "", "debug: effects | roots | reach")
	flagGenMan   = flag.Bool("genmanifest", false, "print MANIFEST.json generated from the property table")
	flagScan     = flag.Bool("scan", false, "development aid: load once, run every rule, print what is not discharged (no evidence, no controls)")
)

func main() {
	flag.Parse()
	if *flagList {
		listAll()
		return
	}
	if *flagGenMan {
		genManifest()
		return
	}
	if *flagDump != "" {
		dump(*flagDump)
		return
	}
	if *flagScan {
		os.Exit(runScan())
	}
	if *flagControl != "" {
		os.Exit(runControlCLI(*flagControl))
	}
	if *flagReplay != "" {
		os.Exit(runReplay(*flagReplay))
	}
	if *flagProperty == "" {
		fmt.Fprintln(os.Stderr, "usage: larkcheck -property Cxx [-tier quick|thorough]")
		os.Exit(2)
	}
	tier := *flagTier
	if tier == "" {
		tier = os.Getenv("VERIF_TIER")
	}
	if tier != "thorough" {
		tier = "quick"
	}
	os.Exit(runProperty(*flagProperty, tier))
}

func seed() int {
	s, _ := strconv.Atoi(os.Getenv("VERIF_SEED"))
	return s
}

// runRules evaluates the given rules on a loaded program, converting checker
// panics into undecided obligations (a rule that crashes has decided nothing).
func runRules(p *Program, rules []string) *Run {
	currentProgram = p
	r := &Run{P: p}
	for _, name := range rules {
		rule := ruleTable[name]
		if rule == nil {
			r.rule = name
			r.undecided("rule:"+name, 0, "rule not implemented")
			continue
		}
		r.rule = name
		before := len(r.Obs)
		func() {
			defer func() {
				if e := recover(); e != nil {
					r.undecided("rule:"+name, 0, "checker panic while evaluating rule: %v\n%s", e, trimStack(debug.Stack()))
				}
			}()
			rule.Run(r)
		}()
		n := 0
		for _, o := range r.Obs[before:] {
			if o.Status != stInfo {
				n++
			}
		}
		if n < rule.Floor {
			r.undecided("rule:"+name+"/instance-floor", 0,
				"rule matched %d instances, fewer than the %d confirmed by hand on the reviewed tree: the rule has lost its subject", n, rule.Floor)
		}
	}
	sortObs(r.Obs)
	return r
}

func trimStack(b []byte) string {
	lines := strings.Split(string(b), "\n")
	if len(lines) > 24 {
		lines = lines[:24]
	}
	return strings.Join(lines, "\n")
}

func runProperty(id, tier string) int {
	t0 := time.Now()
	prop := propertyTable[id]
	if prop == nil {
		fmt.Fprintf(os.Stderr, "unknown property %q\n", id)
		return 2
	}
	evPath := filepath.Join(*flagVerif, "evidence", id+".json")
	replayDir := filepath.Join(*flagVerif, "replays")

	fail := func(what string, err error) int {
		// The tree could not be analysed: nothing is decided, which is a failure.
		rp := filepath.Join(replayDir, id+"-LOAD-0.json")
		_ = writeJSON(rp, map[string]interface{}{"property": id, "rule": "LOAD", "error": fmt.Sprint(err), "what": what})
		ev := Evidence{PropertyID: id, Tier: tier, Seed: seed(), Level: "other",
			Coverage: map[string]interface{}{
				"explanation": "the tree could not be loaded/type-checked, so no rule was evaluated: " + fmt.Sprint(err),
				"obligations": 0, "discharged": 0,
			},
			WallS: time.Since(t0).Seconds(), Violations: 1}
		_ = writeJSON(evPath, ev)
		fmt.Printf("ERROR %s: %v\n", what, err)
		fmt.Printf("VIOLATION property=%s replay=%s\n", id, rp)
		return 1
	}

	known, err := loadKnown(filepath.Join(*flagVerif, "known_findings.json"))
	if err != nil {
		return fail("known_findings.json", err)
	}

	prog, err := Load(*flagRepo, defaultConfig, nil)
	if err != nil {
		return fail("load", err)
	}
	rules, planned := prop.implementedRules()
	run := runRules(prog, rules)

	configs := []string{defaultConfig.String()}
	var extraObs []Obligation
	extraConfigs := thoroughConfigs
	if tier != "thorough" {
		// rules whose verdict depends on the width of int are also evaluated for a 32-bit target on every change
		extraConfigs = nil
		for _, rl := range rules {
			if widthSensitive[rl] {
				extraConfigs = []BuildConfig{{GOOS: "linux", GOARCH: "386"}}
				break
			}
		}
	}
	{
		for _, bc := range extraConfigs {
			p2, err := Load(*flagRepo, bc, nil)
			if err != nil {
				extraObs = append(extraObs, Obligation{Rule: "LOAD", Construct: "config:" + bc.String(), Status: stUndecided, Pos: "-", Detail: err.Error()})
				continue
			}
			r2 := runRules(p2, rules)
			configs = append(configs, bc.String())
			// only report what differs from the default configuration
			base := map[string]string{}
			for _, o := range run.Obs {
				base[o.Rule+"\x00"+o.Construct] = o.Status
			}
			for _, o := range r2.Obs {
				if o.Status == stInfo {
					continue
				}
				if bs, ok := base[o.Rule+"\x00"+o.Construct]; !ok || bs != o.Status {
					o.Detail = "[" + bc.String() + "] " + o.Detail
					o.Construct = o.Construct + "@" + bc.String()
					extraObs = append(extraObs, o)
				}
			}
			p2 = nil
		}
	}
	obs := append(run.Obs, extraObs...)

	// ---- classify ----
	var nObl, nOK, nKnown, nViol int
	ruleCounts := map[string]map[string]int{}
	var violations []Obligation
	var knownHits []string
	for _, o := range obs {
		if ruleCounts[o.Rule] == nil {
			ruleCounts[o.Rule] = map[string]int{}
		}
		ruleCounts[o.Rule][o.Status]++
		if o.Status == stInfo {
			continue
		}
		nObl++
		switch o.Status {
		case stOK:
			nOK++
		default:
			if kf := known.match(id, o); kf != nil {
				nKnown++
				knownHits = append(knownHits, fmt.Sprintf("KNOWN-FINDING: property=%s %s %s: %s", id, o.Rule, o.Construct, kf.What))
			} else {
				nViol++
				violations = append(violations, o)
			}
		}
	}

	// ---- positive controls ----
	var ctlResults []map[string]interface{}
	if !*flagNoCtl {
		ctlResults = runControls(id, tier, rules)
	}

	// ---- output ----
	if *flagVerbose {
		for _, o := range obs {
			fmt.Printf("%-10s %-22s %-60s %s  %s\n", o.Status, o.Rule, o.Construct, o.Pos, firstLine(o.Detail))
		}
	}
	for _, k := range knownHits {
		fmt.Println(k)
	}
	// clear stale replays of this property
	if old, _ := filepath.Glob(filepath.Join(replayDir, id+"-*.json")); len(old) > 0 {
		for _, f := range old {
			_ = os.Remove(f)
		}
	}
	for i, o := range violations {
		rp := filepath.Join(replayDir, fmt.Sprintf("%s-%s-%d.json", id, sanitize(o.Rule), i))
		_ = writeJSON(rp, map[string]interface{}{
			"property": id, "rule": o.Rule, "construct": o.Construct, "pos": o.Pos, "status": o.Status, "detail": o.Detail,
			"replay_cmd": fmt.Sprintf("/verif/bin/larkcheck -replay %s", rp),
		})
		fmt.Printf("%s %s [%s] %s: %s\n", strings.ToUpper(o.Status), o.Pos, o.Rule, o.Construct, o.Detail)
		fmt.Printf("VIOLATION property=%s replay=%s\n", id, rp)
	}

	// ---- evidence ----
	samples := sampleObs(obs, 14)
	ruleDocs := map[string]string{}
	for _, rn := range rules {
		if rl := ruleTable[rn]; rl != nil {
			ruleDocs[rn] = rl.Doc
		}
	}
	cov := map[string]interface{}{
		"explanation": prop.Decides + " NOT DECIDED: " + prop.NotDecided,
		"obligations": nObl,
		"discharged":  nOK,
		"known":       nKnown,
		"violated":    nViol,
		"exhaustive":  true,
		"rule": "every rule instance (obligation) found in the type-checked SSA program of ./larking and ./health is enumerated; " +
			"an obligation is non-trivial when it is attached to a concrete construct (function, call site, field, table entry) of /repo",
		"evaluations":         nObl,
		"distinct_nontrivial": distinctConstructs(obs),
		"samples":             samples,
		"rules":               ruleDocs,
		"instance_counts":     ruleCounts,
		"functions_analysed":  len(prog.ModuleFuncs()),
		"program_functions":   prog.nAllFuncs,
		"configs":             configs,
		"controls":            ctlResults,
		"rules_not_built":     planned,
		"checker_cmd":         fmt.Sprintf("/verif/bin/larkcheck -property %s -tier %s", id, tier),
		"trusted_base":        []string{"go/types", "go/ssa", "golang.org/x/tools v0.29.0 (vta/cha call graph)", "contract tables for library calls (DESIGN.md section 8)", "larkcheck itself"},
	}
	if prog.cg != nil {
		cov["callgraph_nodes"] = len(prog.cg.Nodes)
	}
	ev := Evidence{PropertyID: id, Tier: tier, Seed: seed(), Level: "other", Coverage: cov,
		Assumptions: prop.Assumptions, WallS: time.Since(t0).Seconds(), Violations: nViol}
	if err := writeJSON(evPath, ev); err != nil {
		fmt.Printf("ERROR writing evidence: %v\n", err)
		return 2
	}
	fmt.Printf("%s %s: %d obligations, %d discharged, %d known, %d violated; rules=%d controls=%d wall=%.1fs\n",
		id, tier, nObl, nOK, nKnown, nViol, len(rules), len(ctlResults), time.Since(t0).Seconds())
	if nViol > 0 {
		return 1
	}
	return 0
}

func firstLine(s string) string {
	if i := strings.IndexByte(s, '\n'); i >= 0 {
		return s[:i]
	}
	return s
}

func distinctConstructs(obs []Obligation) int {
	m := map[string]bool{}
	for _, o := range obs {
		if o.Status != stInfo {
			m[o.Rule+"\x00"+o.Construct] = true
		}
	}
	return len(m)
}

// sampleObs picks up to n obligations: every non-discharged one first, then a
// spread over the rules.
func sampleObs(obs []Obligation, n int) []Obligation {
	out := []Obligation{}
	seen := map[string]int{}
	for _, o := range obs {
		if o.Status == stViolated || o.Status == stUndecided {
			out = append(out, o)
		}
	}
	for _, o := range obs {
		if len(out) >= n+len(seen) && len(out) >= n {
			break
		}
		if o.Status == stOK && seen[o.Rule] < 2 {
			seen[o.Rule]++
			out = append(out, o)
		}
	}
	if len(out) > 40 {
		out = out[:40]
	}
	return out
}

func runReplay(path string) int {
	var rp struct {
		Property, Rule, Construct string
	}
	b, err := os.ReadFile(path)
	if err != nil {
		fmt.Println("ERROR", err)
		return 2
	}
	if err := jsonUnmarshal(b, &rp); err != nil {
		fmt.Println("ERROR", err)
		return 2
	}
	prog, err := Load(*flagRepo, defaultConfig, nil)
	if err != nil {
		fmt.Printf("ERROR load: %v\nVIOLATION property=%s replay=%s\n", err, rp.Property, path)
		return 1
	}
	if ruleTable[rp.Rule] == nil {
		fmt.Printf("replay: rule %s unknown\n", rp.Rule)
		return 2
	}
	run := runRules(prog, []string{rp.Rule})
	status := "absent"
	for _, o := range run.Obs {
		if o.Construct == rp.Construct {
			status = o.Status
			fmt.Printf("%s %s [%s] %s: %s\n", strings.ToUpper(o.Status), o.Pos, o.Rule, o.Construct, o.Detail)
		}
	}
	if status == stViolated || status == stUndecided {
		fmt.Printf("VIOLATION property=%s replay=%s\n", rp.Property, path)
		return 1
	}
	fmt.Printf("replay: obligation %s/%s is now %s\n", rp.Rule, rp.Construct, status)
	return 0
}

func listAll() {
	var ids []string
	for id := range propertyTable {
		ids = append(ids, id)
	}
	sort.Strings(ids)
	for _, id := range ids {
		p := propertyTable[id]
		fmt.Printf("%s  rules: %s\n", id, strings.Join(p.Rules, " "))
	}
	var rs []string
	for n := range ruleTable {
		rs = append(rs, n)
	}
	sort.Strings(rs)
	fmt.Println()
	for _, n := range rs {
		fmt.Printf("%-22s floor=%d  %s\n", n, ruleTable[n].Floor, ruleTable[n].Doc)
	}
	fmt.Println()
	for _, c := range controlTable {
		fmt.Printf("control %-28s rule=%-20s %s\n", c.ID, c.Rule, c.Why)
	}
}

// runScan is a development aid used by tools/regress.sh: it evaluates every
// rule once (linux/amd64 and, for width-sensitive rules, linux/386) and prints
// each obligation that is not discharged, tagged with the properties that use
// the rule. Known findings are printed as KNOWN. Exit 1 if anything else remains.
func runScan() int {
	known, err := loadKnown(filepath.Join(*flagVerif, "known_findings.json"))
	if err != nil {
		fmt.Println("ERROR", err)
		return 2
	}
	users := map[string][]string{}
	var ids []string
	for id := range propertyTable {
		ids = append(ids, id)
	}
	sort.Strings(ids)
	var all []string
	seen := map[string]bool{}
	for _, id := range ids {
		rules, _ := propertyTable[id].implementedRules()
		for _, rl := range rules {
			users[rl] = append(users[rl], id)
			if !seen[rl] {
				seen[rl] = true
				all = append(all, rl)
			}
		}
	}
	bad := 0
	for _, bc := range []BuildConfig{defaultConfig, {GOOS: "linux", GOARCH: "386"}} {
		rules := all
		if bc != defaultConfig {
			rules = nil
			for _, rl := range all {
				if widthSensitive[rl] {
					rules = append(rules, rl)
				}
			}
		}
		prog, err := Load(*flagRepo, bc, nil)
		if err != nil {
			fmt.Printf("LOAD-ERROR %s: %v\n", bc, err)
			return 1
		}
		run := runRules(prog, rules)
		for _, o := range run.Obs {
			if o.Status == stOK || o.Status == stInfo {
				continue
			}
			rule := strings.TrimSuffix(strings.TrimPrefix(o.Rule, "rule:"), "/instance-floor")
			isKnown := false
			for _, id := range users[rule] {
				if known.match(id, o) != nil {
					isKnown = true
				}
			}
			tag := strings.ToUpper(o.Status)
			if isKnown {
				tag = "KNOWN"
			} else {
				bad++
			}
			fmt.Printf("%s %s [%s] %s %s: %s\n", tag, strings.Join(users[rule], ","), o.Rule, o.Pos, o.Construct, firstLineN(o.Detail, 260))
		}
	}
	fmt.Printf("SCAN: %d not discharged\n", bad)
	if bad > 0 {
		return 1
	}
	return 0
}

func firstLineN(s string, n int) string {
	if i := strings.IndexByte(s, '\n'); i >= 0 {
		s = s[:i]
	}
	if len(s) > n {
		s = s[:n]
	}
	return s
}
