package main

import (
	_ "golang.org/x/tools/go/callgraph/cha"
	_ "golang.org/x/tools/go/callgraph/vta"
	_ "golang.org/x/tools/go/cfg"
	_ "golang.org/x/tools/go/packages"
	_ "golang.org/x/tools/go/ssa"
	_ "golang.org/x/tools/go/ssa/ssautil"
	_ "golang.org/x/tools/go/types/typeutil"
	_ "golang.org/x/tools/go/ast/astutil"
)

func main() {}
