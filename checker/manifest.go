package main

import (
	"encoding/json"
	"fmt"
	"os"
	"sort"
	"strings"
)

// genManifest prints /verif/MANIFEST.json from the property table, so that
// the manifest, the evidence and the checker cannot drift apart.
func genManifest() {
	var ids []string
	for id := range propertyTable {
		ids = append(ids, id)
	}
	sort.Strings(ids)
	type lvl struct {
		Category  string `json:"category"`
		Text      string `json:"text"`
		DesignRef string `json:"design_ref"`
	}
	type check struct {
		PropertyID string `json:"property_id"`
		Quick      string `json:"quick_cmd"`
		Thorough   string `json:"thorough_cmd"`
		Evidence   string `json:"evidence_file"`
		Replay     string `json:"replay_cmd_template"`
		Engine     string `json:"engine"`
		Level      lvl    `json:"level_claimed"`
		Note       string `json:"level_note"`
		Technique  string `json:"technique"`
	}
	type na struct {
		PropertyID string `json:"property_id"`
		Reason     string `json:"reason"`
	}
	var checks []check
	var nas []na
	var served []string
	for _, id := range ids {
		p := propertyTable[id]
		have, _ := p.implementedRules()
		if len(have) == 0 {
			nas = append(nas, na{id, "no rule of this property is built yet (see DESIGN.md section 5): not claimed"})
			continue
		}
		served = append(served, id)
		checks = append(checks, check{
			PropertyID: id,
			Quick:      fmt.Sprintf("/verif/bin/larkcheck -property %s -tier quick", id),
			Thorough:   fmt.Sprintf("/verif/bin/larkcheck -property %s -tier thorough", id),
			Evidence:   fmt.Sprintf("/verif/evidence/%s.json", id),
			Replay:     "/verif/bin/larkcheck -replay {path}",
			Engine:     "larkcheck",
			Level: lvl{
				Category: "other",
				Text: "Static analysis of /repo's current source (type-checked AST, go/ssa, CFG path queries, VTA call graph); no larking code is run. " + p.Decides +
					" Every rule instance is enumerated and each is a necessary condition of the property: a violation names the construct (file:line, function, call site or path) that breaks it. The claim is 'other', never 'proof': the rules do not establish the behaviour itself.",
				DesignRef: "DESIGN.md section 5 (" + id + "), rule catalogue section 4",
			},
			Note:      "NOT DECIDED: " + p.NotDecided + " Trusted base: go/types, go/ssa, x/tools v0.29.0 VTA call graph, library contract tables and specification tables embedded in the checker (DESIGN.md section 8), larkcheck itself (exercised by overlay-mutant controls on every run). Rules: " + strings.Join(have, ", ") + ".",
			Technique: "static analysis: custom SSA/CFG/call-graph rules (" + strings.Join(have, ", ") + ")",
		})
	}
	m := map[string]interface{}{
		"version":   1,
		"setup_cmd": "cd /verif/checker && GOFLAGS=-mod=vendor GOPROXY=off GOSUMDB=off GOTOOLCHAIN=local GOWORK=off go build -o /verif/bin/larkcheck .",
		"hooks": map[string]interface{}{
			"guard":            "verif",
			"enable":           "no hooks are needed: the checker reads /repo's working tree through go/packages; the thorough tier additionally loads the tree with -tags=verif so that a tagged file cannot hide a writer or a panic",
			"baseline_off_cmd": "cd /repo && GOFLAGS=-mod=mod GOPROXY=off GOSUMDB=off go test -vet=off -count=1 ./...",
			"source_commits":   []string{},
			"add_only":         true,
		},
		"engines": []map[string]interface{}{{
			"name": "larkcheck", "path": "/verif/checker", "serves_properties": served,
			"kind_free_text": "repository-specific static analyser (go/packages + go/types + go/ssa + go/callgraph/vta): rule instances are obligations over /repo's source; overlay mutants as positive controls",
		}},
		"checks":         checks,
		"notes":          "Static analysis only. Every check loads and type-checks /repo's working tree on every run, reports violated obligations as VIOLATION lines with a replay file under /verif/replays, prints KNOWN-FINDING lines for entries of /verif/known_findings.json (read-only at run time) and rewrites /verif/evidence/<id>.json. See DESIGN.md.",
		"not_applicable": nas,
	}
	if nas == nil {
		m["not_applicable"] = []na{}
	}
	enc := json.NewEncoder(os.Stdout)
	enc.SetIndent("", " ")
	enc.SetEscapeHTML(false)
	_ = enc.Encode(m)
}
